(* C17 -- an item's qualified name is the key that references to it resolve to.  Statements only. *)
From AidlV Require Import Spec.Master Spec.Nodes Proofs.Names.

(* interface, parcelable and enum alike: package '.' name = the key under which the file is registered *)
Theorem C17_item : forall a, sym_qname (item_symbol a) = Some (get_key a).
Proof. exact item_qname_is_key. Qed.
Print Assumptions C17_item.

(* a type symbol resolved to an item reports that item's key *)
Theorem C17_type : forall t key k, ty_kind t = KResolved key k -> sym_qname (SType t) = Some key.
Proof. exact type_qname. Qed.

(* and that key is the key of a file of the project defining an item of that kind: so the two names coincide *)
Theorem C17_reference : forall files imports declared n key rk,
  spec_resolve imports declared (collect_item_keys files) n = Some (KResolved key rk) ->
  rk = RInterface \/ rk = RParcelable \/ rk = REnum ->
  exists fr a, In fr files /\ fr_ast fr = Some a /\
               sym_qname (item_symbol a) = Some key /\ item_kind (ai_item a) = rk.
Proof.
  intros files imports declared n key rk H Hk.
  apply spec_resolve_defined in H; [|exact Hk].
  apply collect_item_keys_sound in H as [fr [a [Hin [Ha [Hkey Hkind]]]]].
  exists fr, a. repeat split; auto. rewrite item_qname_is_key, Hkey. reflexivity.
Qed.
Print Assumptions C17_reference.

(* members are Owner::member, imports and the package their dotted names, plain names the identifiers *)
Theorem C17_members : forall m i c o f p el e,
  sym_qname (SMethod m i) = Some (i_name i ++ lit "::" ++ m_name m) /\
  sym_qname (SConst c o) = Some (owner_name o ++ lit "::" ++ c_name c) /\
  sym_qname (SField f p) = Some (pc_name p ++ lit "::" ++ f_name f) /\
  sym_qname (SEnumElement el e) = Some (e_name e ++ lit "::" ++ ee_name el) /\
  sym_name (SMethod m i) = Some (m_name m) /\ sym_name (SConst c o) = Some (c_name c) /\
  sym_name (SField f p) = Some (f_name f) /\ sym_name (SEnumElement el e) = Some (ee_name el).
Proof. intros; repeat split. Qed.
Theorem C17_dotted : forall p i, sym_qname (SPackage p) = Some (pk_name p) /\ sym_qname (SImport i) = Some (import_qname i).
Proof. intros; split; reflexivity. Qed.

Example C17_example :
  let r := Rng (Pos 0 1 1) (Pos 1 1 2) in
  let a := Aidl (Package (lit "p.q") r r) [] [] (ItEnum (Enum (lit "E") [] [] None r r)) in
  sym_qname (item_symbol a) = Some (lit "p.q.E").
Proof. reflexivity. Qed.
