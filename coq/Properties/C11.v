(* C11 -- validation output is deterministic and ordered by position.  Statements only.
   In the model validate is a function of the list of held results; "independent of hash seeds, insertion
   order, repetition" becomes: the results do not depend on the order in which the files are held. *)
From AidlV Require Import Spec.Master Proofs.Pipeline Proofs.Master Proofs.Locality.

(* the item-key environment is the same function of the files, whatever their order
   (several files defining one key included: the kind of least rank wins) *)
Theorem C11_environment : forall files files' k,
  Permutation files files' -> assoc k (collect_item_keys files) = assoc k (collect_item_keys files').
Proof. exact collect_item_keys_perm. Qed.
Print Assumptions C11_environment.

(* hence every file's tree and diagnostic list -- in order -- are the same *)
Theorem C11_file : forall files files' fr,
  Permutation files files' ->
  validate_one (collect_item_keys files) fr = validate_one (collect_item_keys files') fr.
Proof. exact validate_one_perm. Qed.
Print Assumptions C11_file.

Theorem C11_validate : forall files files',
  Permutation files files' -> outcome_perm (validate files) (validate files').
Proof. exact validate_perm. Qed.
Print Assumptions C11_validate.

(* within a file: ascending start offset; ties keep emission order (which is source-ordered code, no hash iteration) *)
Theorem C11_sorted : forall defined a ds0 a' ds,
  validate_file defined a ds0 = Ok (a', ds) -> Sorted le_start ds.
Proof.
  intros defined a ds0 a' ds H. apply validate_file_shape in H as [dc [dm [_ [_ [_ ->]]]]]. apply sort_sorted.
Qed.
Print Assumptions C11_sorted.
Theorem C11_stable : forall k l,
  filter (fun x => N.eqb (start_off x) k) (sort_diags l) = filter (fun x => N.eqb (start_off x) k) l.
Proof. exact sort_stable. Qed.
Print Assumptions C11_stable.

(* a file without a tree is returned as stored *)
Theorem C11_no_tree : forall defined fr, fr_ast fr = None -> validate_one defined fr = Ok fr.
Proof. intros defined fr H. unfold validate_one. rewrite H. reflexivity. Qed.

Example C11_example :
  let r := Rng (Pos 0 1 1) (Pos 1 1 2) in
  let mk (n : string) it := FR (lit n) (Some (Aidl (Package (lit "p") r r) [] [] it)) [] in
  let i := mk "a"%string (ItInterface (Interface false (lit "X") [] [] None r r)) in
  let p := mk "b"%string (ItParcelable (Parcelable (lit "X") [] [] None r r)) in
  (assoc (lit "p.X") (collect_item_keys [i; p]), assoc (lit "p.X") (collect_item_keys [p; i])) = (Some RInterface, Some RInterface).
Proof. vm_compute. reflexivity. Qed.
