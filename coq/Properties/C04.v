(* C04 -- every reported source range is exact, well-formed and properly nested.  Statements only.
   PARTIAL: proved is that every position built through Position::new is a character boundary inside the text
   carrying the lookup's line/column, and that the lookup index of the end of a prefix is its character count.
   Exactness of name ranges and nesting are checked on the implementation's output by text-based oracles and by
   the exact correspondence with the table-driven model. *)
From AidlV Require Import Model.LrDriver Proofs.Totality.

Theorem C04_position : forall cx off p,
  mk_pos cx off = Some p ->
  p_off p = off /\ exists i, char_index (cx_src cx) off O = Some i /\ nth_error (cx_lc cx) i = Some (p_line p, p_col p).
Proof. exact mk_pos_sound. Qed.
Print Assumptions C04_position.

Theorem C04_range_partial : forall cx s e r,
  mk_range cx s e = Some r ->
  p_off (r_start r) = s /\ p_off (r_end r) = e /\ (s <= byte_len (cx_src cx))%N /\ (e <= byte_len (cx_src cx))%N.
Proof. exact mk_range_sound. Qed.
Print Assumptions C04_range_partial.

Theorem C04_boundary : forall pre post, char_index (pre ++ post) (byte_len pre) O = Some (length pre).
Proof. intros. rewrite char_index_app. reflexivity. Qed.
Print Assumptions C04_boundary.
