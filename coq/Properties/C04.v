(* C04 -- every reported source range is exact, well-formed and properly nested.  Statements only.
   PARTIAL: proved is that EVERY position in everything add_content stores -- every range of every node of the tree, every
   syntax diagnostic -- is the lookup's answer at a character boundary inside the text (C04_stored_positions, for every text,
   well-formed or not, and any tables: an invariant of the parser's stack that needs no typing), that Position::new itself is
   sound, and that the lookup index of the end of a prefix is its character count.
   Also proved: every diagnostic validation adds sits on a node's range (C04_validation_on_nodes), and EVERY range of every
   stored tree node and syntax diagnostic has start <= end (C04_ranges_ordered, for every text and the regenerated tables:
   the symbols on the parser's stack occupy consecutive stretches of the text, everything inside a symbol's value lies inside
   that symbol's stretch, and Coq checks by an abstract run of all 210 productions' actions that every action passes positions
   on in text order).
   Also proved: nesting (C04_ranges_nested), siblings disjoint and increasing (C04_siblings_disjoint_increasing), validation's
   diagnostics ordered (C04_validated_diagnostics_ordered).
   Not proved: exactness of name and full ranges (a name range covers exactly the name as written); those are checked on the implementation's output by
   text-based oracles and by the exact correspondence with the table-driven model. *)
From AidlV Require Import Model.LrDriver Spec.Master Proofs.Totality Proofs.RangesOk Proofs.ArityOk Proofs.DiagSites Proofs.RangesOrd Proofs.RangesOrdVal.

Theorem C04_position : forall cx off p,
  mk_pos cx off = Some p ->
  p_off p = off /\ exists i, char_index (cx_src cx) off O = Some i /\ nth_error (cx_lc cx) i = Some (p_line p, p_col p).
Proof. exact mk_pos_sound. Qed.
Print Assumptions C04_position.

Theorem C04_range_partial : forall cx s e r,
  mk_range cx s e = Some r ->
  p_off (r_start r) = s /\ p_off (r_end r) = e /\ (s <= byte_len (cx_src cx))%N /\ (e <= byte_len (cx_src cx))%N.
Proof. exact mk_range_sound. Qed.
Print Assumptions C04_range_partial.

Theorem C04_boundary : forall pre post, char_index (pre ++ post) (byte_len pre) O = Some (length pre).
Proof. intros. rewrite char_index_app. reflexivity. Qed.
Print Assumptions C04_boundary.

(* every position the parser stage stores: its offset is a character boundary of the text and its line/column are the
   lookup's answer there; for the tree (aidl_rok: package, imports, declarations, item, members, arguments, types at any
   depth, direction / oneway / transact-code ranges) and for every diagnostic with its related ranges *)
Theorem C04_stored_positions : forall cx id fr, add_content cx id = Added fr ->
  Forall (diag_rok cx) (fr_diags fr) /\ (forall a, fr_ast fr = Some a -> aidl_rok cx a).
Proof. exact add_content_ranges. Qed.
Print Assumptions C04_stored_positions.

(* a validation diagnostic sits on the range of the node it names: whatever validation adds to a stored tree's diagnostics
   has its range -- and every related range -- among the ranges of the tree's nodes (`sites`: name ranges of imports,
   declarations, types at any depth, methods, the item; transact-code, oneway-keyword and direction ranges; the full range of
   a declaration).  Resolution and oneway propagation change no range, so these are also the returned tree's ranges. *)
Theorem C04_validation_on_nodes : forall cx id fr a defined a' ds d,
  add_content cx id = Added fr -> fr_ast fr = Some a ->
  validate_file defined a (fr_diags fr) = Ok (a', ds) -> In d ds ->
  In d (fr_diags fr) \/ dok (sites a) d.
Proof.
  intros cx id fr a defined a' ds d H E V Hd.
  exact (validation_diag_sites defined a (fr_diags fr) a' ds d (add_content_wf cx id fr a H E) V Hd).
Qed.
Print Assumptions C04_validation_on_nodes.

(* start <= end, for every range of the stored tree (aidl_rs: package, imports, declarations, the item and its name, every
   member, argument, direction, type at any depth, transact-code and oneway ranges) and of every syntax diagnostic *)
Theorem C04_ranges_ordered : forall cx id fr, add_content cx id = Added fr ->
  Forall diag_ord (fr_diags fr) /\ (forall a, fr_ast fr = Some a -> Forall rle (aidl_rs a)).
Proof. intros cx id fr H. destruct (add_content_ordered cx id fr H) as [D T]. split; [exact D|]. intros a E. apply (T a E). Qed.
Print Assumptions C04_ranges_ordered.

(* nesting: the full range of every node of the stored tree (package, import, declaration, item, member, argument, type at
   any depth: aidl_nests) contains its name range and every range of every descendant *)
Theorem C04_ranges_nested : forall cx id fr a, add_content cx id = Added fr -> fr_ast fr = Some a -> Forall nest_ok (aidl_nests a).
Proof. intros cx id fr a H E. destruct (add_content_ordered cx id fr H) as [_ T]. apply (T a E). Qed.
Print Assumptions C04_ranges_nested.

(* siblings: in every list of the tree -- imports, forward declarations, the members of the item, the arguments of a method,
   the parameters of a generic type at any depth (aidl_chains) -- each full range ends before the next one starts *)
Theorem C04_siblings_disjoint_increasing : forall cx id fr a, add_content cx id = Added fr -> fr_ast fr = Some a ->
  Forall seq_ok (aidl_chains a).
Proof. intros cx id fr a H E. destruct (add_content_ordered cx id fr H) as [_ T]. apply (T a E). Qed.
Print Assumptions C04_siblings_disjoint_increasing.
Theorem C04_seq_meaning : forall r1 r2 l, seq_ok (r1 :: r2 :: l) <-> (p_off (r_end r1) <= p_off (r_start r2))%N /\ seq_ok (r2 :: l).
Proof. intros. reflexivity. Qed.

(* ... and the diagnostics validation adds are ordered too (they sit on ranges of the tree) *)
Theorem C04_validated_diagnostics_ordered : forall cx id fr a defined a' ds,
  add_content cx id = Added fr -> fr_ast fr = Some a -> validate_file defined a (fr_diags fr) = Ok (a', ds) -> Forall diag_ord ds.
Proof. exact validated_diags_ordered. Qed.
Print Assumptions C04_validated_diagnostics_ordered.

Theorem C04_rle_meaning : forall r, rle r <-> (p_off (r_start r) <= p_off (r_end r))%N.
Proof. intros r. reflexivity. Qed.
Theorem C04_nest_meaning : forall f rs, nest_ok (f, rs) <->
  forall r, In r rs -> (p_off (r_start f) <= p_off (r_start r))%N /\ (p_off (r_end r) <= p_off (r_end f))%N.
Proof. intros f rs. unfold nest_ok. cbn [fst snd]. rewrite Forall_forall. reflexivity. Qed.
Print Assumptions C04_nest_meaning.

(* non-vacuity: the nodes of a small document: 2 (package, import) + the item + 2 members with 2 + 3 types/arguments *)
Example C04_ex_nests : exists a, add_content (Ctx (lit "package p; import q.R; interface I { void f(in List<R> x); const int C = 1; }")
                              (map (fun i => (1, N.of_nat i + 1)%N) (seq 0 79))) (lit "f") = Added (FR (lit "f") (Some a) []) /\
  length (aidl_nests a) = 10%nat /\ length (aidl_rs a) = 23%nat /\ map (@length _) (aidl_chains a) = [1; 0; 2; 1; 0; 1; 0; 0]%nat.
Proof. vm_compute. eexists. split; [reflexivity|split; [reflexivity|split; reflexivity]]. Qed.

(* what pos_ok says, spelled out *)
Theorem C04_pos_ok_meaning : forall cx p, pos_ok cx p ->
  (p_off p <= byte_len (cx_src cx))%N /\
  exists i, char_index (cx_src cx) (p_off p) O = Some i /\ nth_error (cx_lc cx) i = Some (p_line p, p_col p).
Proof.
  intros cx p [i [C D]]. split; [|exists i; auto]. apply char_index_bound in C. tauto.
Qed.
Print Assumptions C04_pos_ok_meaning.

(* non-vacuity: a method's four ranges, on a concrete text *)
Example C04_ex : exists a, add_content (Ctx (lit "package p; interface I { oneway void f() = 7; }")
                              (map (fun i => (1, N.of_nat i + 1)%N) (seq 0 48))) (lit "f") = Added (FR (lit "f") (Some a) []) /\
  match ai_item a with
  | ItInterface i => match i_elems i with
                     | [IEMethod m] => (p_off (r_start (m_oneway_range m)), p_off (r_end (m_oneway_range m)),
                                        p_off (r_start (m_code_range m)), p_off (r_end (m_code_range m))) = (25, 31, 41, 44)%N
                     | _ => False end
  | _ => False end.
Proof. vm_compute. eexists. split; reflexivity. Qed.
