(* C10 -- oneway is propagated from the interface; oneway methods must return void.  Statements only. *)
From AidlV Require Import Spec.Master Proofs.Oneway Proofs.Master.

(* set_up_oneway_interface returns the propagated tree and one Warning per redundant keyword *)
Theorem C10_propagation : forall it, set_up_oneway it = (propagate it, spec_redundant it).
Proof. exact set_up_oneway_spec. Qed.
Print Assumptions C10_propagation.

(* after propagation a method is oneway exactly when the interface or the method says so ... *)
Theorem C10_flags : forall i,
  map m_oneway (methods_of (propagate (ItInterface i))) =
  map (fun m => i_oneway i || m_oneway m) (methods_of (ItInterface i)).
Proof. exact propagate_flags. Qed.
(* ... and nothing else about the methods changes; parcelables and enums are untouched *)
Theorem C10_only_flag : forall i,
  map (set_oneway false) (methods_of (propagate (ItInterface i))) =
  map (set_oneway false) (methods_of (ItInterface i)).
Proof. exact propagate_only_flag. Qed.
Theorem C10_others_untouched : forall it, (forall i, it <> ItInterface i) -> propagate it = it /\ spec_redundant it = [].
Proof. intros it H. destruct it; [exfalso; eapply H; reflexivity| |]; split; reflexivity. Qed.
Print Assumptions C10_flags.
Print Assumptions C10_only_flag.

(* the void rule is judged on the flag after propagation *)
Theorem C10_return : forall m,
  check_method m = spec_return m ++ flat_map (check_arg (m_oneway m)) (m_args m).
Proof. exact check_method_split. Qed.

Theorem C10_file : forall defined a ds0 a' ds,
  wf_item (ai_item a) = true ->
  validate_file defined a ds0 = Ok (a', ds) ->
  ai_item a' = propagate (mu_item (sp_f defined a) (ai_item a)) /\
  Permutation ds (ds0 ++ sp_unknown defined a ++ sp_imports defined a ++ sp_declared defined a ++
                  sp_containers defined a ++ spec_redundant (mu_item (sp_f defined a) (ai_item a)) ++
                  spec_methods (methods_of (ai_item a'))).
Proof.
  intros defined a ds0 a' ds W H. destruct (validate_file_perm _ _ _ _ _ W H) as [-> [P _]].
  split; [reflexivity|exact P].
Qed.
Print Assumptions C10_file.

Example C10_example :
  let r n := Rng (Pos n 1 1) (Pos (n + 1) 1 2) in
  let t k := Ty (lit "t") k [] (r 9) (r 9) in
  let m ow k := IEMethod (Method ow (lit "f") (t k) [] [] None None (r 1) (r 1) (r 1) (r 5)) in
  let it := ItInterface (Interface true (lit "I") [m true KVoid; m false KPrimitive] [] None (r 0) (r 0)) in
  (List.map m_oneway (methods_of (propagate it)), length (spec_redundant it),
   List.map (fun x => length (spec_return x)) (methods_of (propagate it))) = ([true; true], 1%nat, [0%nat; 1%nat]).
Proof. vm_compute. reflexivity. Qed.
