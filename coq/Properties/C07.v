(* C07 -- argument direction rules follow the argument's type category.  Statements only. *)
From AidlV Require Import Spec.Master Proofs.Direction Proofs.Oneway Proofs.Master.

(* the regenerated requirement table of the code equals the table of the statement *)
Theorem C07_table : forall c, gen_requirement c = req c.
Proof. exact requirement_table. Qed.
Print Assumptions C07_table.

(* per argument: exactly as many Errors as rules are broken, each on the direction keyword (or the empty
   range at the type), nothing else *)
Theorem C07_arg : forall oneway a,
  length (check_arg oneway a) = expected_dir_errors (cat (ty_kind (a_ty a))) (dir_of (a_dir a)) oneway /\
  Forall (is_dir_diag_at (where_ a)) (check_arg oneway a).
Proof. exact check_arg_spec. Qed.
Print Assumptions C07_arg.

Theorem C07_legal : forall oneway a,
  expected_dir_errors (cat (ty_kind (a_ty a))) (dir_of (a_dir a)) oneway = 0%nat -> check_arg oneway a = [].
Proof. exact check_arg_legal. Qed.

(* pipeline order: the category is the kind AFTER resolution and the oneway flag is the one AFTER propagation,
   because check_method runs on the methods of sp_final_item = propagate (resolved item) *)
Theorem C07_pipeline : forall defined a ds0 a' ds,
  wf_item (ai_item a) = true ->
  validate_file defined a ds0 = Ok (a', ds) ->
  ai_item a' = propagate (mu_item (sp_f defined a) (ai_item a)) /\
  Permutation ds (ds0 ++ sp_unknown defined a ++ sp_imports defined a ++ sp_declared defined a ++
                  sp_containers defined a ++ sp_redundant defined a ++
                  spec_methods (methods_of (ai_item a'))).
Proof.
  intros defined a ds0 a' ds W H. destruct (validate_file_perm _ _ _ _ _ W H) as [-> [P _]].
  split; [reflexivity|exact P].
Qed.
Print Assumptions C07_pipeline.

Theorem C07_method : forall m,
  check_method m = spec_return m ++ flat_map (check_arg (m_oneway m)) (m_args m).
Proof. exact check_method_split. Qed.

(* non-vacuity: every requirement class occurs, and a oneway `out` parcelable breaks only the oneway rule *)
Example C07_example :
  (expected_dir_errors CParcelable DirNone false, expected_dir_errors CParcelable DirOut true,
   expected_dir_errors CParcelFileDescriptor DirOut true, expected_dir_errors CParcelableHolder DirIn false,
   expected_dir_errors CUnresolved DirInOut false, expected_dir_errors CEnum DirIn true) =
  (1, 1, 2, 1, 0, 0)%nat.
Proof. reflexivity. Qed.
