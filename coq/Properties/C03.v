(* C03 -- syntax verdicts agree with the grammar; failure is never silent.  Statements only.
   PARTIAL: proved are (e) validation never drops a diagnostic and (d') a fatal parse error always leaves an Error and
   no tree.  "Exactly when well-formed" needs a grammar-level model of the parser; the check compares the implementation
   with the table-driven model (exact) and with documents whose (mal)formedness is known by construction. *)
From AidlV Require Import Spec.Master Proofs.Master Proofs.Totality Model.LrDriver Proofs.Typing Proofs.Keywords Proofs.DriverSafe Proofs.Grammar Proofs.FirstSets.

Theorem C03_kept : forall defined a ds0 a' ds d,
  validate_file defined a ds0 = Ok (a', ds) -> In d ds0 -> In d ds.
Proof. exact validation_keeps. Qed.
Print Assumptions C03_kept.

Theorem C03_kept_all : forall defined a ds0 a' ds,
  wf_item (ai_item a) = true -> validate_file defined a ds0 = Ok (a', ds) -> exists added, Permutation ds (ds0 ++ added).
Proof. intros defined a ds0 a' ds W H. destruct (validate_file_perm _ _ _ _ _ W H) as [_ [P _]]. eexists; exact P. Qed.
Print Assumptions C03_kept_all.

Theorem C03_fatal_is_loud_partial : forall cx id fr p e,
  parse cx = (p, Failed e) -> add_content cx id = Added fr ->
  fr_ast fr = None /\ exists d, In d (fr_diags fr) /\ d_kind d = DError.
Proof. exact add_content_failed_has_error. Qed.
Print Assumptions C03_fatal_is_loud_partial.

(* (f), at the lexer: whatever the surrounding text, a token that the regenerated lexer table classifies as IDENT is never
   one of the AIDL keywords or reserved Java/C++ words the property names -- the longest-match tie goes to the later table
   entry, and every such word is matched, whole, by a later entry (computed over the regenerated table) *)
Theorem C03_ident_never_keyword : forall s off a text stop rest w,
  lex1 s off = LTok a (N.of_nat ident_lex_idx) text stop rest -> In w named_words -> text <> w.
Proof. exact ident_never_keyword. Qed.
Print Assumptions C03_ident_never_keyword.

(* ... for any table: a token of entry i is never a word that a later finite-language entry matches first *)
Theorem C03_token_not_later_word : forall tbl fuel s off a i text stop rest w,
  lex_next tbl fuel s off = LTok a (N.of_nat i) text stop rest -> covered tbl i w = true -> text <> w.
Proof. exact token_not_later_word. Qed.
Print Assumptions C03_token_not_later_word.

(* (f), for whole trees: whatever the source text, no user-chosen identifier stored in the tree that add_content keeps --
   package and import segments, the item's name, member, argument and enum-element names, annotation-parameter names,
   segments of user type names at any depth -- is one of those words (aidl_ok, Proofs/Words.v).  Proved by refining the
   types of the parser's stack values (IDENT tokens, dotted names) and re-running the action-table analysis on them. *)
Theorem C03_names_never_keywords : forall cx, length (cx_lc cx) = S (length (cx_src cx)) ->
  forall id fr a, add_content cx id = Added fr -> fr_ast fr = Some a -> aidl_ok a.
Proof. exact add_content_names. Qed.
Print Assumptions C03_names_never_keywords.

(* the predicate discriminates: `inout` is refused, `inouts` is fine *)
Example C03_ex_ident_ok : ~ ident_ok (lit "inout") /\ ident_ok (lit "inouts").
Proof.
  split.
  - intros H. apply H. unfold named_words. apply in_map. cbn. tauto.
  - intros H. unfold named_words in H. apply in_map_iff in H as [w [E Hw]].
    cbn in Hw. repeat (destruct Hw as [<-|Hw]; [vm_compute in E; discriminate E|]). exact Hw.
Qed.

(* non-vacuity: IDENT tokens exist, and the keyword next to one is classified differently *)
Example C03_ex_ident : exists a stop rest, lex1 (lit "  interfaces x") 0 = LTok a (N.of_nat ident_lex_idx) (lit "interfaces") stop rest.
Proof. vm_compute. do 3 eexists. reflexivity. Qed.
Example C03_ex_keyword : exists a idx stop rest, lex1 (lit "  interface x") 0 = LTok a idx (lit "interface") stop rest /\ idx <> N.of_nat ident_lex_idx.
Proof. vm_compute. do 4 eexists. split; [reflexivity|discriminate]. Qed.

(* (d): failure is never silent.  Whatever the text, a stored result without a tree carries at least one Error: either the
   parse failed outright (C03_fatal_is_loud_partial), or the item-level recovery action returned None -- and the typing of the
   parser's stack carries a level, "an Error has been pushed", below which that None cannot exist (TLoud, Proofs/Typing.v) *)
Theorem C03_no_silent_failure : forall cx, length (cx_lc cx) = S (length (cx_src cx)) ->
  forall id fr, add_content cx id = Added fr -> fr_ast fr = None -> exists d, In d (fr_diags fr) /\ d_kind d = DError.
Proof. exact add_content_loud. Qed.
Print Assumptions C03_no_silent_failure.

(* (a), one direction, against the grammar itself.  `der` is derivability in the regenerated grammar -- the 209 productions
   lalrpop built the tables from (Gen/LrTables.v: gen_productions, gen_prod_rhs), terminals = lexer columns -- and
   `lexes_to_eof` is the token sequence of the text.  A stored result WITHOUT an Error diagnostic means that the text's token
   sequence is derivable from the start symbol: the run never entered error recovery (recovery leaves an error symbol on
   the stack or an Error behind, and the accept state cannot be reached with either), and a recovery-free LR run is a
   rightmost derivation in reverse. *)
Theorem C03_no_error_means_wellformed : forall cx, length (cx_lc cx) = S (length (cx_src cx)) ->
  forall id fr, add_content cx id = Added fr -> (forall d, In d (fr_diags fr) -> d_kind d <> DError) ->
  exists l, lexes_to_eof (cx_src cx, 0%N) l /\ der start_sym l.
Proof. exact no_error_means_wellformed. Qed.
Print Assumptions C03_no_error_means_wellformed.

(* ... so a malformed document -- one whose token sequence is not derivable -- always gets at least one Error *)
Theorem C03_malformed_is_loud : forall cx, length (cx_lc cx) = S (length (cx_src cx)) ->
  forall id fr, add_content cx id = Added fr ->
  (forall l, lexes_to_eof (cx_src cx, 0%N) l -> ~ der start_sym l) ->
  exists d, In d (fr_diags fr) /\ d_kind d = DError.
Proof. exact malformed_is_loud. Qed.
Print Assumptions C03_malformed_is_loud.

(* which documents are malformed for sure: FIRST of the regenerated grammar's start symbol is the `package` keyword (computed by
   iteration, accepted through a closure check over all productions), so every derivable token sequence starts with it ... *)
Theorem C03_wellformed_starts_with_package : forall l, der start_sym l ->
  exists c text rest, l = (c, text) :: rest /\ nth c gen_terminals ""%string = "PACKAGE"%string.
Proof. exact wellformed_starts_with_package. Qed.
Print Assumptions C03_wellformed_starts_with_package.

(* ... and a text that omits the package -- holds no token at all, or starts with any other token -- always gets an Error *)
Theorem C03_no_package_is_loud : forall cx, length (cx_lc cx) = S (length (cx_src cx)) ->
  forall id fr, add_content cx id = Added fr ->
  (forall l, lexes_to_eof (cx_src cx, 0%N) l ->
     match l with [] => True | (c, _) :: _ => nth c gen_terminals ""%string <> "PACKAGE"%string end) ->
  exists d, In d (fr_diags fr) /\ d_kind d = DError.
Proof. exact no_package_is_loud. Qed.
Print Assumptions C03_no_package_is_loud.

(* ... and symmetrically (LAST of the start symbol is the closing brace of the item): every derivable token sequence ends with
   `}`, so trailing text after the item -- anything whose last token is not `}` -- always gets an Error *)
Theorem C03_wellformed_ends_with_brace : forall l, der start_sym l ->
  exists c text front, l = front ++ [(c, text)] /\ nth c gen_terminals ""%string = """}"""%string.
Proof. exact wellformed_ends_with_brace. Qed.
Print Assumptions C03_wellformed_ends_with_brace.
Theorem C03_trailing_text_is_loud : forall cx, length (cx_lc cx) = S (length (cx_src cx)) ->
  forall id fr, add_content cx id = Added fr ->
  (forall l, lexes_to_eof (cx_src cx, 0%N) l ->
     match rev l with [] => True | (c, _) :: _ => nth c gen_terminals ""%string <> """}"""%string end) ->
  exists d, In d (fr_diags fr) /\ d_kind d = DError.
Proof. exact trailing_text_is_loud. Qed.
Print Assumptions C03_trailing_text_is_loud.

(* non-vacuity: the start symbol is the nonterminal of OptAidl, and a concrete document is derivable *)
Example C03_ex_start : start_sym = SNT 54 /\ nth (N.to_nat accept_prod) gen_production_text ""%string = "__OptAidl = OptAidl"%string.
Proof. vm_compute. split; reflexivity. Qed.
Example C03_ex_derivable :
  exists l, lexes_to_eof (lit "package p; interface I { void f(in int x); }", 0%N) l /\ der start_sym l.
Proof.
  pose (src := lit "package p; interface I { void f(in int x); }").
  pose (cx := Ctx src (map (fun i => (1, N.of_nat i + 1)%N) (seq 0 (S (length src))))).
  assert (A : exists a, add_content cx (lit "f") = Added (FR (lit "f") (Some a) [])) by (vm_compute; eexists; reflexivity).
  destruct A as [a A]. apply (no_error_means_wellformed cx eq_refl (lit "f") _ A). intros d [].
Qed.

(* the full statement of (d), kept visible: the theorem above is it, for the line/column tables the harness supplies *)
Definition C03_full : Prop :=
  forall cx id fr, add_content cx id = Added fr -> fr_ast fr = None -> exists d, In d (fr_diags fr) /\ d_kind d = DError.
