(* C03 -- syntax verdicts agree with the grammar; failure is never silent.  Statements only.
   PARTIAL: proved are (e) validation never drops a diagnostic and (d') a fatal parse error always leaves an Error and
   no tree.  "Exactly when well-formed" needs a grammar-level model of the parser; the check compares the implementation
   with the table-driven model (exact) and with documents whose (mal)formedness is known by construction. *)
From AidlV Require Import Spec.Master Proofs.Master Proofs.Totality Model.LrDriver.

Theorem C03_kept : forall defined a ds0 a' ds d,
  validate_file defined a ds0 = Ok (a', ds) -> In d ds0 -> In d ds.
Proof. exact validation_keeps. Qed.
Print Assumptions C03_kept.

Theorem C03_kept_all : forall defined a ds0 a' ds,
  wf_item (ai_item a) = true -> validate_file defined a ds0 = Ok (a', ds) -> exists added, Permutation ds (ds0 ++ added).
Proof. intros defined a ds0 a' ds W H. destruct (validate_file_perm _ _ _ _ _ W H) as [_ [P _]]. eexists; exact P. Qed.
Print Assumptions C03_kept_all.

Theorem C03_fatal_is_loud_partial : forall cx id fr p e,
  parse cx = (p, Failed e) -> add_content cx id = Added fr ->
  fr_ast fr = None /\ exists d, In d (fr_diags fr) /\ d_kind d = DError.
Proof. exact add_content_failed_has_error. Qed.
Print Assumptions C03_fatal_is_loud_partial.

Definition C03_full : Prop :=
  forall cx id fr, add_content cx id = Added fr -> fr_ast fr = None -> exists d, In d (fr_diags fr) /\ d_kind d = DError.
