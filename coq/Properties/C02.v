(* C02 -- well-formed documents yield a tree that mirrors the source, whatever the layout.  Statements only.
   PARTIAL.  Proved: the tree that add_content stores is, up to positions and attached documentation, a FUNCTION OF THE TOKEN
   SEQUENCE: two texts that the regenerated lexer cuts into the same tokens (same table entry, same text; offsets, whitespace,
   line endings and comments free) give trees that are equal once ranges and docs are erased -- on well-formed and malformed
   input alike, through error recovery, for the regenerated tables.  So nothing the layout can touch (offsets, the source
   slice between two positions, line/column numbers, comment text) can leak into names, kinds, structure, directions, flags,
   codes, values or annotations.
   Not proved: that inserting whitespace or a comment between two tokens leaves the token sequence unchanged (a fact about
   the 37 regexes under the longest-match rule), and that the tree mirrors the abstract document (the mirror oracle of the
   check decides that on generated documents in four layouts). *)
From AidlV Require Import Model.LrDriver Proofs.Sim Proofs.Typing Proofs.Lockstep Proofs.LexProgress.

Theorem C02_tree_is_a_function_of_the_tokens : forall cx1 cx2,
  length (cx_lc cx1) = S (length (cx_src cx1)) -> length (cx_lc cx2) = S (length (cx_src cx2)) ->
  forall id fr1 fr2,
    lexsim (cx_src cx1, 0%N) (cx_src cx2, 0%N) ->
    add_content cx1 id = Added fr1 -> add_content cx2 id = Added fr2 ->
    option_map erase_aidl (fr_ast fr1) = option_map erase_aidl (fr_ast fr2).
Proof. exact tokens_determine_tree. Qed.
Print Assumptions C02_tree_is_a_function_of_the_tokens.

(* the hypothesis can be decided by running the lexer on both texts *)
Theorem C02_same_tokens_decidable : forall fuel s1 o1 s2 o2, lexsim_b fuel s1 o1 s2 o2 = true -> lexsim (s1, o1) (s2, o2).
Proof. exact lexsim_b_sound. Qed.
Print Assumptions C02_same_tokens_decidable.

(* the token sequence does not depend on where the text sits: the same text read from two different offsets gives the
   same tokens (so the theorem applies to a document moved down a file by a header, up to the header's own tokens) *)
Theorem C02_tokens_do_not_depend_on_the_offset : forall s o1 o2, lexsim (s, o1) (s, o2).
Proof. intros s o1 o2. exact (lexsim_refl (length s) s o1 o2 (le_n _)). Qed.
Print Assumptions C02_tokens_do_not_depend_on_the_offset.

(* erasure keeps everything C02 lists: an example of what survives *)
Example C02_ex_erase :
  erase_ty (Ty (lit "List") KList [Ty (lit "a.B") KUnresolved [] (Rng (Pos 5 1 6) (Pos 8 1 9)) (Rng (Pos 5 1 6) (Pos 8 1 9))]
               (Rng (Pos 0 1 1) (Pos 4 1 5)) (Rng (Pos 0 1 1) (Pos 9 1 10))) =
  Ty (lit "List") KList [Ty (lit "a.B") KUnresolved [] r0 r0] r0 r0.
Proof. reflexivity. Qed.

(* non-vacuity: two layouts of one document (spaces, line breaks, block, line and doc comments) have the same tokens ... *)
Definition c02_compact : str := lit "package p.q;import a.B;interface I{const int K=1;oneway void f(in @A(x=1) List<a.B>[] y,int);}".
Definition c02_spread : str :=
  lit "package  p . q ;  import a . B ; /** about I */ interface I { // c
  const  int K = 1 ; /* x */ oneway void f ( in @A( x = 1 ) List < a . B > [ ] y , int ) ;
}
".
Example C02_ex_same_tokens : lexsim (c02_compact, 0%N) (c02_spread, 0%N).
Proof. apply (lexsim_b_sound 200). vm_compute. reflexivity. Qed.
(* ... and different token sequences are told apart *)
Example C02_ex_different_tokens : lexsim_b 200 (lit "package p;interface I{}") 0 (lit "package p;interface J{}") 0 = false.
Proof. vm_compute. reflexivity. Qed.
