(* C15 -- traversal visits every node once, in order; filter and find agree with it.  Statements only. *)
From AidlV Require Import Spec.Nodes Proofs.Traverse.

(* for every visitor closure (stateful, possibly breaking), the walker behaves exactly like running the
   closure over the plain list `symbols flt a` (Spec/Nodes.v), in order, stopping at the first Break *)
Theorem C15_walk : forall (S V : Type) (f : S -> symbol -> S * option V) flt a s,
  walk_cf f flt a s = run_list f (symbols flt a) s.
Proof. intros; apply walk_cf_spec. Qed.
Print Assumptions C15_walk.

Theorem C15_collect : forall flt a, walk_collect flt a = symbols flt a.
Proof. exact walk_collect_spec. Qed.
Theorem C15_filter : forall flt p a, filter_symbols flt p a = filter p (symbols flt a).
Proof. exact filter_symbols_spec. Qed.
(* ... for every predicate, including ones that select the package (the first element of `symbols FAll a`) *)
Theorem C15_find : forall flt p a, find_symbol p flt a = find p (symbols flt a).
Proof. exact find_symbol_spec. Qed.
Theorem C15_find_stateful : forall S (p : S -> symbol -> S * bool) flt a s0,
  find_symbol_st p flt a s0 =
  snd (run_list (fun s x => let '(s', b) := p s x in (s', if b then Some x else None)) (symbols flt a) s0).
Proof. intros; apply find_symbol_st_spec. Qed.
Print Assumptions C15_collect.
Print Assumptions C15_filter.
Print Assumptions C15_find.
Print Assumptions C15_find_stateful.

(* the two coarser levels: the item alone; the item plus its direct members *)
Theorem C15_levels : forall a,
  symbols FItemsOnly a = [item_symbol a] /\
  symbols FItemsAndElements a = item_symbol a :: member_symbols false a /\
  symbols FAll a = SPackage (ai_package a) :: map SImport (ai_imports a) ++ item_symbol a :: member_symbols true a.
Proof. intros; repeat split. Qed.

(* every type at every depth: the type symbols under a member are all nodes of its type tree,
   an array's element subtree before the array *)
Theorem C15_types : forall t, type_symbols t = map SType (types_of_ty t).
Proof. reflexivity. Qed.

Example C15_example :
  let r n := Rng (Pos n 1 1) (Pos (n + 1) 1 2) in
  let foo := Ty (lit "Foo") KUnresolved [] (r 7) (r 7) in
  let t := Ty (lit "Map") KMap [Ty (lit "String") KString [] (r 5) (r 5);
                                 Ty (lit "Array") KArray [foo] (r 7) (r 8)] (r 4) (r 9) in
  let a := Aidl (Package (lit "p") (r 0) (r 0)) [] []
                (ItParcelable (Parcelable (lit "P") [PEField (Field (lit "f") t None [] None (r 10) (r 4))] [] None (r 1) (r 2))) in
  (List.map sym_tag (symbols FAll a), List.map sym_name (symbols FAll a),
   option_map sym_tag (find_symbol (fun s => N.eqb (sym_tag s) 0) FAll a)) =
  ([0; 3; 8; 10; 10; 10; 10],
   [Some (lit "p"); Some (lit "P"); Some (lit "f"); Some (lit "Map"); Some (lit "String"); Some (lit "Foo"); Some (lit "Array")],
   Some 0).
Proof. vm_compute. reflexivity. Qed.
