(* C01 -- parsing and validation are total; one result per id.  Statements only.
   Proved, for every source text (with the line/column table the harness supplies: one entry per character and one for the
   end), for the regenerated lexer table, LR tables and action table:
   - add_content always stores a result (C01_parse_total): no action is ever applied to a value of the wrong shape, no
     Position::new is asked for an offset that is not a character boundary, no u32 parse or javadoc slice fails, error
     recovery always finds the `!` shift it was promised and never meets a token at EOF (the typed-stack invariant), AND
     every loop of the driver ends with fuel to spare (C01_loops_terminate: runs of reductions are at most chain_bound
     long, a finite check over the regenerated tables; recovery's `accepts` simulation keeps its promise; every dropped
     token shortens the text);
   - every stored tree is grammar-shaped, validation of grammar-shaped trees returns, so validate over any set of held
     files returns one result per file with that file's id (C01_total).
   Modelled rather than proved: the hand-written Gallina model of lexer/driver/actions/validation is tied to the code by the
   correspondence run on every check; the regex engine and the line-col crate are modelled (DESIGN I.6); native stack depth
   and running time are observed by the harness. *)
From AidlV Require Import Spec.Master Proofs.Master Proofs.Totality Proofs.ParserState Model.ParserState Model.LrDriver
  Proofs.Typing Proofs.DriverSafe Proofs.ArityOk Proofs.LexProgress Proofs.Termination Proofs.EndToEnd Proofs.RegexFuel.

(* validation of grammar-shaped trees cannot panic (index [0], unreachable!, unwrap on None) *)
Theorem C01_validation_total : forall defined a ds0,
  wf_item (ai_item a) = true -> exists r, validate_file defined a ds0 = Ok r.
Proof. exact validate_file_total. Qed.
Print Assumptions C01_validation_total.

(* ... and the trees the parser stores ARE grammar-shaped (any text, any tables: an invariant of the stack values), so the two
   halves compose: validating a stored tree cannot panic *)
Theorem C01_parsed_tree_is_grammar_shaped : forall cx id fr a,
  add_content cx id = Added fr -> fr_ast fr = Some a -> wf_item (ai_item a) = true.
Proof. exact add_content_wf. Qed.
Print Assumptions C01_parsed_tree_is_grammar_shaped.

Theorem C01_parsed_tree_validates : forall cx id fr a defined ds0,
  add_content cx id = Added fr -> fr_ast fr = Some a -> exists r, validate_file defined a ds0 = Ok r.
Proof. exact parsed_tree_validates. Qed.
Print Assumptions C01_parsed_tree_validates.

(* the lexer cannot loop: every token it hands out is non-empty (every non-skipped regex of the regenerated table is
   non-nullable: computed), so the text left after a token is strictly shorter *)
Theorem C01_lexer_makes_progress : forall fuel s off a idx text e rest,
  lex_next gen_lex_table fuel s off = LTok a idx text e rest -> text <> [] /\ (length rest < length s)%nat.
Proof. exact lex_next_progress. Qed.
Print Assumptions C01_lexer_makes_progress.

(* the returned collection has one result per held file, tagged with that file's id *)
Theorem C01_ids : forall files r, validate files = Ok r -> map fr_id r = map fr_id files.
Proof. exact validate_ids. Qed.
Print Assumptions C01_ids.

(* ... and the parser holds exactly one slot per id currently in it, whatever the history *)
Theorem C01_slots : forall fs ops, NoDup (map fst (arun fs ops)).
Proof. exact (arun_nodup (fun id _ => FR id None [])). Qed.
Print Assumptions C01_slots.

(* every position the model builds is a character boundary inside the text (the lookup's panic conditions) *)
Theorem C01_positions_partial : forall cx s e r,
  mk_range cx s e = Some r ->
  p_off (r_start r) = s /\ p_off (r_end r) = e /\ (s <= byte_len (cx_src cx))%N /\ (e <= byte_len (cx_src cx))%N.
Proof. exact mk_range_sound. Qed.
Print Assumptions C01_positions_partial.

(* the parser stage: on every source text (with the line/column table the harness supplies: one entry per character
   and one for the end) add_content stores a result -- it never panics and never meets an ill-typed value *)
Theorem C01_parse_partial : forall cx,
  length (cx_lc cx) = S (length (cx_src cx)) -> forall id,
  (exists fr, add_content cx id = Added fr) \/ add_content cx id = AddFuel.
Proof. exact add_content_safe. Qed.
Print Assumptions C01_parse_partial.

(* every action of every reduction the driver performs returns a value of its nonterminal's type,
   hence neither VPanic (a Rust panic) nor VBad (a shape the generated code could not even have compiled) *)
Theorem C01_reductions_typed : forall cx, length (cx_lc cx) = S (length (cx_src cx)) ->
  forall p idx la, pst_ok cx p -> Automaton.reduce_ok (top_state p) idx = true -> ola_ok cx la ->
  match reduce cx p idx la with
  | RCont p' => pst_ok cx p' /\ same_lexer p p'
  | RAccept p' v => has_type cx (lvl p') accept_type v
  | RPanic _ => False
  end.
Proof. exact reduce_safe. Qed.
Print Assumptions C01_reductions_typed.

(* non-vacuity: a well-formed context on which the parser produces a tree, and one on which it recovers *)
Definition flat_lc (s : str) : list (N * N) := map (fun i => (1, N.of_nat i + 1)%N) (seq 0 (S (length s))).
Example C01_ex_ok :
  let cx := Ctx (lit "package p; interface I { void f(in int x); }") (flat_lc (lit "package p; interface I { void f(in int x); }")) in
  length (cx_lc cx) = S (length (cx_src cx)) /\ exists a, add_content cx (lit "f") = Added (FR (lit "f") (Some a) []).
Proof. split; [reflexivity|]. vm_compute. eexists. reflexivity. Qed.
Example C01_ex_recovered :
  let cx := Ctx (lit "package p; interface I { void f(in int x) oops; int g(); }") (flat_lc (lit "package p; interface I { void f(in int x) oops; int g(); }")) in
  length (cx_lc cx) = S (length (cx_src cx)) /\ exists a d ds, add_content cx (lit "f") = Added (FR (lit "f") (Some a) (d :: ds)).
Proof. split; [reflexivity|]. vm_compute. do 3 eexists. reflexivity. Qed.
Example C01_ex_failed :
  let cx := Ctx (lit "interface {") (flat_lc (lit "interface {")) in
  exists d, add_content cx (lit "f") = Added (FR (lit "f") None [d]).
Proof. vm_compute. eexists. reflexivity. Qed.

(* the loops of the parser never exhaust the fuel the model gives them -- for ANY context, no hypothesis *)
Theorem C01_loops_terminate : forall cx, snd (parse cx) <> OutOfFuel.
Proof. exact parse_terminates. Qed.
Print Assumptions C01_loops_terminate.

(* ... nor do the two inner loops whose fuel would run out silently *)
Theorem C01_inner_loops_fuel_immaterial : forall cx la p states col F, bounded (ps_states p) -> bounded states -> (chain_bound < F)%nat ->
  error_reductions cx F p la = error_reductions cx reduce_fuel p la /\ accepts F states col = accepts accept_fuel states col.
Proof. intros cx la p states col F H1 H2 HF. split; [apply error_reductions_never_out_of_fuel; assumption|apply accepts_never_out_of_fuel; assumption]. Qed.
Print Assumptions C01_inner_loops_fuel_immaterial.

(* ... nor the lexer's skip loop or the `*` loops of the regex matcher: any fuel above the length of the text gives the same token *)
Theorem C01_lexer_fuel_immaterial : forall fuel s off, (length s < fuel)%nat -> lex_next gen_lex_table fuel s off = lex1 s off.
Proof. exact lex1_any_fuel. Qed.
Print Assumptions C01_lexer_fuel_immaterial.
Theorem C01_regex_fuel_immaterial : forall f1 f2 r s, (length s < f1)%nat -> (length s < f2)%nat -> match_len_fuel f1 r s = match_len_fuel f2 r s.
Proof. exact match_len_fuel_any. Qed.
Print Assumptions C01_regex_fuel_immaterial.

(* the parser stage in full: every text gets a stored result *)
Theorem C01_parse_total : forall cx id,
  length (cx_lc cx) = S (length (cx_src cx)) -> exists fr, add_content cx id = Added fr /\ fr_id fr = id.
Proof. exact every_text_is_held. Qed.
Print Assumptions C01_parse_total.

(* parsing and validation together: whatever texts were added, validate returns one result per held file, tagged with its id *)
Theorem C01_total : forall files, Forall held files ->
  exists r, validate files = Ok r /\ map fr_id r = map fr_id files.
Proof. exact validate_total. Qed.
Print Assumptions C01_total.

(* ... and over histories: whatever sequence of add_content / remove / add_file / validate a Parser went through (for any file
   system, and any line/column function with one entry per character), validate returns one result per held file *)
Theorem C01_any_history : forall (lcf : str -> list (N * N)), (forall s, length (lcf s) = S (length s)) ->
  forall fs ops, exists r, validate_state (run (parse_model lcf) fs ops) = Ok r /\
                           map fr_id r = map fr_id (map snd (run (parse_model lcf) fs ops)).
Proof. exact validate_after_any_history. Qed.
Print Assumptions C01_any_history.

(* non-vacuity: two held files, one of them unparsable *)
Example C01_ex_total :
  let s1 := lit "package p; interface I { void f(in int x); }" in
  let s2 := lit "interface {" in
  exists f1 f2, add_content (Ctx s1 (flat_lc s1)) (lit "a") = Added f1 /\ add_content (Ctx s2 (flat_lc s2)) (lit "b") = Added f2 /\
                Forall held [f1; f2].
Proof.
  vm_compute add_content. do 2 eexists. split; [reflexivity|split; [reflexivity|]].
  constructor; [|constructor; [|constructor]].
  - exists (Ctx (lit "package p; interface I { void f(in int x); }") (flat_lc (lit "package p; interface I { void f(in int x); }"))).
    split; [reflexivity|]. vm_compute. reflexivity.
  - exists (Ctx (lit "interface {") (flat_lc (lit "interface {"))). split; [reflexivity|]. vm_compute. reflexivity.
Qed.
