(* C01 -- parsing and validation are total; one result per id.  Statements only.
   PARTIAL (see DESIGN.md section 8): proved here are the validation half, the id/key bookkeeping and the
   soundness of every position the model builds.  That the table-driven parser model never reaches `Panicked`
   and never runs out of fuel for the regenerated tables is not proved; it is exercised by the exact
   correspondence parser-model = implementation on every generated input. *)
From AidlV Require Import Spec.Master Proofs.Master Proofs.Totality Proofs.ParserState Model.ParserState Model.LrDriver.

(* validation of grammar-shaped trees cannot panic (index [0], unreachable!, unwrap on None) *)
Theorem C01_validation_total : forall defined a ds0,
  wf_item (ai_item a) = true -> exists r, validate_file defined a ds0 = Ok r.
Proof. exact validate_file_total. Qed.
Print Assumptions C01_validation_total.

(* the returned collection has one result per held file, tagged with that file's id *)
Theorem C01_ids : forall files r, validate files = Ok r -> map fr_id r = map fr_id files.
Proof. exact validate_ids. Qed.
Print Assumptions C01_ids.

(* ... and the parser holds exactly one slot per id currently in it, whatever the history *)
Theorem C01_slots : forall fs ops, NoDup (map fst (arun fs ops)).
Proof. exact (arun_nodup (fun id _ => FR id None [])). Qed.
Print Assumptions C01_slots.

(* every position the model builds is a character boundary inside the text (the lookup's panic conditions) *)
Theorem C01_positions_partial : forall cx s e r,
  mk_range cx s e = Some r ->
  p_off (r_start r) = s /\ p_off (r_end r) = e /\ (s <= byte_len (cx_src cx))%N /\ (e <= byte_len (cx_src cx))%N.
Proof. exact mk_range_sound. Qed.
Print Assumptions C01_positions_partial.

(* the full statement, kept visible *)
Definition C01_full : Prop :=
  forall cx id, exists fr, add_content cx id = Added fr.
