(* C20 -- syntax-error messages name every token the parser was prepared to accept.
   KNOWN FINDING (known_findings.txt): with three or more expected tokens the formatter drops the last but
   one.  The existing test suite pins the truncated wording, so the defect is recorded, not repaired.
   Statements only; the theorems describe the formatter as it is. *)
From AidlV Require Import Model.Diag Proofs.Diag.

(* the ideal law  fmt_names v = v  holds for vectors of fewer than three names ... *)
Theorem C20_small : forall v, (length v < 3)%nat -> fmt_names v = v.
Proof. exact fmt_names_small. Qed.
Print Assumptions C20_small.

(* ... and fails in exactly one way beyond: the element v[len-2], and only it, is missing *)
Theorem C20_known : forall v, (3 <= length v)%nat -> fmt_names v = remove_nth (length v - 2) v.
Proof. exact fmt_names_known. Qed.
Print Assumptions C20_known.
Theorem C20_known_is_a_loss : forall v, (3 <= length v)%nat -> length (fmt_names v) = (length v - 1)%nat.
Proof. exact fmt_names_drops. Qed.

(* the message never names anything outside the expectation set *)
Theorem C20_nothing_extra : forall v, incl (fmt_names v) v.
Proof. exact fmt_names_incl. Qed.
Print Assumptions C20_nothing_extra.

(* the rendered text interpolates exactly fmt_names v *)
Theorem C20_text : forall v, (3 <= length v)%nat ->
  expected_token_str v =
  lit "Expected one of " ++ join_with (lit ", ") (removelast (fmt_names v)) ++ lit " or " ++ last (fmt_names v) [].
Proof. exact expected_token_str_names. Qed.
Theorem C20_text_small : forall a b,
  (expected_token_str [] = []) /\ (expected_token_str [a] = lit "Expected " ++ a) /\
  expected_token_str [a; b] = lit "Expected " ++ a ++ lit " or " ++ b.
Proof. exact expected_token_str_small. Qed.
Print Assumptions C20_text.

(* the known class is inhabited, and reading the names back from the text agrees (witness) *)
Example C20_refuted : exists v, names_in (expected_token_str v) <> v.
Proof. exists [lit "A"; lit "B"; lit "C"]. vm_compute. discriminate. Qed.
Example C20_example :
  names_in (lit "Unrecognized token `x`." ++ [10] ++ expected_token_str [lit """;"""; lit ""","""; lit "IDENT"; lit """}"""])
  = [lit """;"""; lit ""","""; lit """}"""].
Proof. vm_compute. reflexivity. Qed.
