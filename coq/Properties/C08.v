(* C08 -- array, list and map element rules on every container at any depth.  Statements only. *)
From AidlV Require Import Spec.Master Proofs.Elements Proofs.Master.

(* the regenerated tables of the code equal the tables of the statement *)
Theorem C08_tables : forall c n,
  gen_array c = array_rule c /\ gen_list_ok c = list_ok c /\ gen_mapval_ok c = mapval_ok c /\
  gen_mapkey_ok c n = mapkey_ok c n.
Proof. intros c n. split; [apply array_table|]. split; [apply list_table|]. split; [apply mapval_table|apply mapkey_table]. Qed.
Print Assumptions C08_tables.

(* every container of every member type, at any depth, is checked exactly once: the output is the
   structural specification; and no arity assumption (index [0], unreachable!) can fail *)
Theorem C08_containers : forall it,
  wf_item it = true -> check_containers it = Some (flat_map spec_container_ty (top_types it)).
Proof. exact check_containers_spec. Qed.
Print Assumptions C08_containers.

Theorem C08_file : forall defined a ds0 a' ds,
  wf_item (ai_item a) = true ->
  validate_file defined a ds0 = Ok (a', ds) ->
  Permutation ds (ds0 ++ sp_unknown defined a ++ sp_imports defined a ++ sp_declared defined a ++
                  flat_map spec_container_ty (top_types (mu_item (sp_f defined a) (ai_item a))) ++
                  sp_redundant defined a ++ sp_methods defined a).
Proof. intros defined a ds0 a' ds W H. destruct (validate_file_perm _ _ _ _ _ W H) as [_ [P _]]. exact P. Qed.
Print Assumptions C08_file.

(* non-vacuity: List<List<int[]>> owes one Error for the inner list (a list in a list); int[] is fine *)
Example C08_example :
  let r n := Rng (Pos n 1 1) (Pos (n + 1) 1 2) in
  let int := Ty (lit "int") KPrimitive [] (r 3) (r 3) in
  let arr := Ty (lit "Array") KArray [int] (r 3) (r 3) in
  let inner := Ty (lit "List") KList [arr] (r 2) (r 2) in
  let outer := Ty (lit "List") KList [inner] (r 1) (r 1) in
  (wf_arity outer, List.map (fun d => (d_ctx d, p_off (r_start (d_range d)))) (spec_container_ty outer)) =
  (true, [(Some (lit "invalid element"), 2); (Some (lit "invalid element"), 3)]).
Proof. vm_compute. reflexivity. Qed.
