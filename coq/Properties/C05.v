(* C05 -- every user-type reference is resolved per AIDL scoping, or reported unknown.  Statements only. *)
From AidlV Require Import Spec.Master Proofs.Scoping Proofs.Master.

(* the kind a written name gets follows the scoping rules of the statement (Spec/Scoping.v: spec_resolve) *)
Theorem C05_rules : forall imports declared defined name,
  resolve_name imports declared defined name = spec_resolve imports declared defined name.
Proof. exact resolve_name_spec. Qed.
Print Assumptions C05_rules.

(* every node of a type tree, at any depth, is re-kinded, and exactly the nodes that stay unresolved get
   one `unknown type` Error on their name range *)
Theorem C05_depth : forall imports declared defined t,
  resolve_ty imports declared defined t =
  (map_unresolved (resolve_name imports declared defined) t,
   flat_map (spec_unknown (resolve_name imports declared defined)) (types_of_ty_pre t)).
Proof. exact resolve_ty_spec. Qed.
Print Assumptions C05_depth.

(* whole file: the returned tree is the input with every unresolved node of every member re-kinded by the
   scoping rules (and oneway propagated); the diagnostics are the parse-stage ones plus the specified ones *)
Theorem C05_file : forall defined a ds0 a' ds,
  wf_item (ai_item a) = true ->
  validate_file defined a ds0 = Ok (a', ds) ->
  a' = sp_tree defined a /\ Permutation ds (ds0 ++ sp_added defined a) /\ Sorted le_start ds.
Proof. exact validate_file_perm. Qed.
Print Assumptions C05_file.

(* no reference is left unresolved silently *)
Theorem C05_no_silent : forall defined a ds0 a' ds t,
  wf_item (ai_item a) = true ->
  validate_file defined a ds0 = Ok (a', ds) ->
  In t (all_types_pre (ai_item a)) -> ty_kind t = KUnresolved -> sp_f defined a (ty_name t) = None ->
  In (unknown_type_diag (ty_sym t)) ds.
Proof.
  intros defined a ds0 a' ds t W H Hin Hk Hf.
  destruct (validate_file_perm _ _ _ _ _ W H) as [_ [P _]].
  eapply Permutation_in; [symmetry; exact P|].
  apply in_or_app. right. unfold sp_added. apply in_or_app. left.
  unfold sp_unknown. apply in_flat_map. exists t. split; [exact Hin|].
  unfold spec_unknown. rewrite Hk, Hf. left. reflexivity.
Qed.
Print Assumptions C05_no_silent.

(* the import a reference goes through is one of the file's imports, equal to the name or ending in '.'+name;
   if any import matches, one is found; exact matches win; near misses never match *)
Theorem C05_import_sound : forall imports name ip,
  find_import imports name = Some ip -> In ip imports /\ import_matches name ip.
Proof. exact find_import_sound. Qed.
Theorem C05_import_complete : forall imports name ip,
  In ip imports -> import_matches name ip -> find_import imports name <> None.
Proof. exact find_import_complete. Qed.
Theorem C05_import_exact : forall imports name, In name imports -> find_import imports name = Some name.
Proof. exact find_import_exact. Qed.
Theorem C05_near_miss : forall name pre c, c <> dotc -> ~ import_matches name (pre ++ c :: name).
Proof. exact near_miss_never_matches. Qed.
Print Assumptions C05_import_sound.
Print Assumptions C05_import_complete.
Print Assumptions C05_near_miss.

(* non-vacuity: Map<String, List<Foo>> with `import q.Foo` (defined as a parcelable) and an unknown Bar[] *)
Example C05_example :
  let r := Rng (Pos 0 1 1) (Pos 1 1 2) in
  let u n := Ty (lit n) KUnresolved [] r r in
  let t := Ty (lit "Map") KMap [Ty (lit "String") KString [] r r; Ty (lit "List") KList [u "Foo"%string] r r] r r in
  let t2 := Ty (lit "Array") KArray [u "XFoo"%string] r r in
  let '(t', d) := resolve_ty [lit "q.Foo"] [] [(lit "q.Foo", RParcelable)] t in
  let '(t2', d2) := resolve_ty [lit "q.Foo"] [] [(lit "q.Foo", RParcelable)] t2 in
  (List.map ty_kind (types_of_ty_pre t'), length d, List.map ty_kind (types_of_ty_pre t2'), length d2) =
  ([KMap; KString; KList; KResolved (lit "q.Foo") RParcelable], 0%nat, [KArray; KUnresolved], 1%nat).
Proof. vm_compute. reflexivity. Qed.
