(* The grammar's user actions (src/aidl.lalrpop), one function per action body.  translate/user_actions.py maps the
   body text that lalrpop copied into aidl.rs to these functions; Gen/ParseActions.v calls them. *)
From AidlV Require Export Model.Sem Model.Javadoc Model.Vty.

Definition res := (sem * list diag)%type.
Definition ok (v : sem) : res := (v, []).
Definition bad : res := (VBad, []).
Definition panic : res := (VPanic, []).

(* Range::new(lookup, s, e), continuing with the range *)
Definition with_range (cx : ctx) (s e : sem) (k : range -> res) : res :=
  match s, e with
  | VLoc a, VLoc b => match mk_range cx a b with Some r => k r | None => panic end
  | _, _ => bad
  end.
(* javadoc::get_javadoc(input, p0) *)
Definition with_doc (cx : ctx) (p0 : sem) (k : option str -> res) : res :=
  match p0 with
  | VLoc p => match get_javadoc (cx_src cx) p with Some d => k d | None => panic end
  | _ => bad
  end.

Fixpoint toks (l : list sem) : option (list str) :=
  match l with
  | [] => Some []
  | VTok s :: l' => match toks l' with Some r => Some (s :: r) | None => None end
  | _ => None
  end.
Definition join_dot (l : list str) : str := join_with [dotc] l.

(* Vec<Option<X>> -> Vec<X>  (into_iter().flatten().collect()) *)
Fixpoint flatten_opts {X} (f : sem -> option X) (l : list sem) : option (list X) :=
  match l with
  | [] => Some []
  | VOpt None :: l' => flatten_opts f l'
  | VOpt (Some v) :: l' =>
      match f v, flatten_opts f l' with Some x, Some r => Some (x :: r) | _, _ => None end
  | _ => None
  end.
Fixpoint all_of {X} (f : sem -> option X) (l : list sem) : option (list X) :=
  match l with
  | [] => Some []
  | v :: l' => match f v, all_of f l' with Some x, Some r => Some (x :: r) | _, _ => None end
  end.

Definition as_annot (v : sem) := match v with VAnnotation a => Some a | _ => None end.
Definition as_annots (v : sem) : option (list annotation) := match v with VVec l => all_of as_annot l | _ => None end.
Definition as_ie (v : sem) := match v with VIE e => Some e | _ => None end.
Definition as_pe (v : sem) := match v with VPE e => Some e | _ => None end.
Definition as_ee (v : sem) := match v with VEnumElem e => Some e | _ => None end.
Definition as_arg (v : sem) := match v with VArg a => Some a | _ => None end.
Definition as_import (v : sem) := match v with VImport i => Some i | _ => None end.
Definition as_kv (v : sem) := match v with VKV kv => Some kv | _ => None end.

(* ---- OptAidl ---- *)
Definition act_OptAidl (cx : ctx) (p vi vdp oi : sem) : res :=
  match p, vi, vdp, oi with
  | VPackage pk, VVec li, VVec ld, VOpt o =>
      match all_of as_import li, all_of as_import ld with
      | Some imports, Some declared =>
          match o with
          | None => ok (VOpt None)
          | Some (VItem it) => ok (VOpt (Some (VAidl (Aidl pk imports declared it))))
          | Some _ => bad
          end
      | _, _ => bad
      end
  | _, _, _, _ => bad
  end.

Definition act_Package (cx : ctx) (fp1 sp1 name sp2 fp2 : sem) : res :=
  match name with
  | VString n => with_range cx sp1 sp2 (fun sr => with_range cx fp1 fp2 (fun fr => ok (VPackage (Package n sr fr))))
  | _ => bad
  end.

(* Import and DeclaredParcelable have the same body *)
Definition act_Import (cx : ctx) (fp1 sp1 v n sp2 fp2 : sem) : res :=
  match v, n with
  | VVec l, VTok name =>
      match toks l with
      | Some segs => with_range cx sp1 sp2 (fun sr => with_range cx fp1 fp2 (fun fr => ok (VImport (Import (join_dot segs) name sr fr))))
      | None => bad
      end
  | _, _ => bad
  end.

Definition act_QualifiedName (cx : ctx) (v n : sem) : res :=
  match v, n with
  | VVec l, VTok name =>
      match toks l with
      | Some [] => ok (VString name)
      | Some segs => ok (VString (join_dot segs ++ dotc :: name))
      | None => bad
      end
  | _, _ => bad
  end.

Definition act_ItemInterface (cx : ctx) (i : sem) : res := match i with VInterface x => ok (VOpt (Some (VItem (ItInterface x)))) | _ => bad end.
Definition act_ItemParcelable (cx : ctx) (p : sem) : res := match p with VParcelable x => ok (VOpt (Some (VItem (ItParcelable x)))) | _ => bad end.
Definition act_ItemEnum (cx : ctx) (e : sem) : res := match e with VEnum x => ok (VOpt (Some (VItem (ItEnum x)))) | _ => bad end.
Definition act_IEMethod (cx : ctx) (m : sem) : res := match m with VMethod x => ok (VOpt (Some (VIE (IEMethod x)))) | _ => bad end.
Definition act_IEConst (cx : ctx) (c : sem) : res := match c with VConst x => ok (VOpt (Some (VIE (IEConst x)))) | _ => bad end.
Definition act_PEField (cx : ctx) (f : sem) : res := match f with VField x => ok (VOpt (Some (VPE (PEField x)))) | _ => bad end.
Definition act_PEConst (cx : ctx) (c : sem) : res := match c with VConst x => ok (VOpt (Some (VPE (PEConst x)))) | _ => bad end.
Definition act_SomeEnumElement (cx : ctx) (el : sem) : res := match el with VEnumElem x => ok (VOpt (Some (VEnumElem x))) | _ => bad end.

(* the four `! =>?` alternatives: push the recovered error (if it can be rendered), yield None *)
Definition act_err (label : string) (cx : ctx) (e : sem) : res :=
  match e with
  | VErr pe => match diag_of_recovery cx label pe with Some d => (VOpt None, [d]) | None => panic end
  | _ => bad
  end.
Definition act_ErrItem := act_err "Invalid item".
Definition act_ErrIE := act_err "Invalid interface element".
Definition act_ErrPE := act_err "Invalid parcelable element".
Definition act_ErrEE := act_err "Invalid enum element".

Definition is_some_sem (v : sem) : option bool := match v with VOpt (Some _) => Some true | VOpt None => Some false | _ => None end.

Definition act_Interface (cx : ctx) (p0 annotations fp1 oneway sp1 s sp2 v fp2 : sem) : res :=
  match as_annots annotations, is_some_sem oneway, s, v with
  | Some an, Some ow, VTok name, VVec l =>
      match flatten_opts as_ie l with
      | Some els =>
          with_doc cx p0 (fun doc => with_range cx fp1 fp2 (fun fr => with_range cx sp1 sp2 (fun sr =>
            ok (VInterface (Interface ow name els an doc fr sr)))))
      | None => bad
      end
  | _, _, _, _ => bad
  end.

Definition act_Parcelable (cx : ctx) (p0 annotations fp1 sp1 s sp2 v fp2 : sem) : res :=
  match as_annots annotations, s, v with
  | Some an, VTok name, VVec l =>
      match flatten_opts as_pe l with
      | Some els =>
          with_doc cx p0 (fun doc => with_range cx fp1 fp2 (fun fr => with_range cx sp1 sp2 (fun sr =>
            ok (VParcelable (Parcelable name els an doc fr sr)))))
      | None => bad
      end
  | _, _, _ => bad
  end.

Definition act_Enum (cx : ctx) (p0 annotations fp1 sp1 s sp2 v fp2 : sem) : res :=
  match as_annots annotations, s, v with
  | Some an, VTok name, VVec l =>
      match flatten_opts as_ee l with
      | Some els =>
          with_doc cx p0 (fun doc => with_range cx fp1 fp2 (fun fr => with_range cx sp1 sp2 (fun sr =>
            ok (VEnum (Enum name els an doc fr sr)))))
      | None => bad
      end
  | _, _, _ => bad
  end.

(* str::parse::<u32>(): optional '+', then decimal digits; empty / non-digit / overflow are errors whose Display text
   ends up in the diagnostic *)
Definition digit_val (c : N) : option N := if N.leb 48 c && N.leb c 57 then Some (c - 48) else None.
Fixpoint parse_digits (s : str) (acc : N) : option N :=
  match s with
  | [] => Some acc
  | c :: s' => match digit_val c with Some d => parse_digits s' (acc * 10 + d) | None => None end
  end.
Definition u32_max : N := 4294967295.
Inductive parse_res := POk (n : N) | PErr (msg : string).
Definition parse_u32 (s : str) : parse_res :=
  match s with
  | [] => PErr "cannot parse integer from empty string"
  | c :: rest =>
      let digits := if N.eqb c 43 then rest else s in
      match digits with
      | [] => PErr "invalid digit found in string"
      | _ => match parse_digits digits 0 with
             | None => PErr "invalid digit found in string"
             | Some x => if N.leb x u32_max then POk x else PErr "number too large to fit in target type"
             end
      end
  end.

(* the four ranges of a method, in the order the struct literal evaluates them; ds = what the transact code pushed *)
Definition method_finish (cx : ctx) (fp1 fp2 sp1 sp2 vp1 vp2 owp1 owp2 : sem)
           (mk : range -> range -> range -> range -> method) (ds : list diag) : res :=
  match with_range cx fp1 fp2 (fun fr => with_range cx sp1 sp2 (fun sr =>
          with_range cx vp1 vp2 (fun cr => with_range cx owp1 owp2 (fun owr => ok (VMethod (mk sr fr cr owr)))))) with
  | (r, _) => (r, ds)
  end.

Definition act_Method (cx : ctx) (p0 annotations fp1 owp1 oneway owp2 rt sp1 n sp2 args vp1 v vp2 fp2 : sem) : res :=
  match as_annots annotations, is_some_sem oneway, rt, n, args with
  | Some an, Some ow, VType ret, VTok name, VVec la =>
      match all_of as_arg la with
      | Some al =>
          with_doc cx p0 (fun doc =>
            let fin (code : option N) (ds : list diag) : res :=
              method_finish cx fp1 fp2 sp1 sp2 vp1 vp2 owp1 owp2
                            (fun sr fr cr owr => Method ow name ret al an code doc sr fr cr owr) ds in
            match v with
            | VOpt None => fin None []
            | VOpt (Some (VTuple [VLoc ip; VTok digits])) =>
                match parse_u32 digits with
                | POk x => fin (Some x) []
                | PErr msg =>
                    match vp2 with
                    | VLoc e2 =>
                        match mk_range cx ip e2 with
                        | Some r => fin None [Diag DError r None [] (lit "Invalid method transact code: " ++ lit msg)]
                        | None => panic
                        end
                    | _ => bad       (* vp2 is a usize in the Rust code *)
                    end
                end
            | _ => bad
            end)
      | None => bad
      end
  | _, _, _, _, _ => bad
  end.

Definition act_Arg (cx : ctx) (p0 d annotations t sp1 n p2 : sem) : res :=
  match d, as_annots annotations, t, n with
  | VDirection dir, Some an, VType ty0, VOpt on =>
      match (match on with None => Some None | Some (VTok s) => Some (Some s) | Some _ => None end) with
      | Some name =>
          with_range cx sp1 p2 (fun sr => with_range cx p0 p2 (fun fr => with_doc cx p0 (fun doc =>
            ok (VArg (Arg dir name ty0 an doc sr fr)))))
      | None => bad
      end
  | _, _, _, _ => bad
  end.

Definition act_Direction (cx : ctx) (p1 d p2 : sem) : res :=
  match d with
  | VOpt None => ok (VDirection DUnspecified)
  | VOpt (Some (VTok s)) =>
      if str_eqb s (lit "in") then with_range cx p1 p2 (fun r => ok (VDirection (DIn r)))
      else if str_eqb s (lit "out") then with_range cx p1 p2 (fun r => ok (VDirection (DOut r)))
      else if str_eqb s (lit "inout") then with_range cx p1 p2 (fun r => ok (VDirection (DInOut r)))
      else panic       (* unreachable!() *)
  | _ => bad
  end.

Definition act_Const (cx : ctx) (p0 annotations fp1 t sp1 n sp2 v fp2 : sem) : res :=
  match as_annots annotations, t, n, v with
  | Some an, VType ty0, VTok name, VString value =>
      with_doc cx p0 (fun doc => with_range cx fp1 fp2 (fun fr => with_range cx sp1 sp2 (fun sr =>
        ok (VConst (Const name ty0 value an doc sr fr)))))
  | _, _, _, _ => bad
  end.

Definition act_Field (cx : ctx) (p0 annotations fp1 t sp1 n sp2 v fp2 : sem) : res :=
  match as_annots annotations, t, n, v with
  | Some an, VType ty0, VTok name, VOpt ov =>
      match (match ov with None => Some None | Some (VString s) => Some (Some s) | Some _ => None end) with
      | Some value =>
          with_doc cx p0 (fun doc => with_range cx fp1 fp2 (fun fr => with_range cx sp1 sp2 (fun sr =>
            ok (VField (Field name ty0 value an doc sr fr)))))
      | None => bad
      end
  | _, _, _, _ => bad
  end.

Definition act_EnumElement (cx : ctx) (p0 fp1 sp1 n sp2 v fp2 : sem) : res :=
  match n, v with
  | VTok name, VOpt ov =>
      match (match ov with None => Some None | Some (VTok s) => Some (Some s) | Some _ => None end) with
      | Some value =>
          with_doc cx p0 (fun doc => with_range cx fp1 fp2 (fun fr => with_range cx sp1 sp2 (fun sr =>
            ok (VEnumElem (EnumElem name value doc sr fr)))))
      | None => bad
      end
  | _, _ => bad
  end.

(* Type::simple_type(n, kind, lookup, p1, p2): symbol_range first, then full_range (same offsets) *)
Definition simple_type (k : tkind) (cx : ctx) (p1 n p2 : sem) : res :=
  match n with
  | VTok name => with_range cx p1 p2 (fun r => with_range cx p1 p2 (fun r' => ok (VType (Ty name k [] r r'))))
  | _ => bad
  end.
Definition act_TypeVoid := simple_type KVoid.
Definition act_TypePrimitive := simple_type KPrimitive.
Definition act_TypeString := simple_type KString.
Definition act_TypeCharSequence := simple_type KCharSequence.

Definition act_TypeArray (cx : ctx) (fp1 sp1 p sp2 fp2 : sem) : res :=
  match p with
  | VType e => with_range cx sp1 sp2 (fun sr => with_range cx fp1 fp2 (fun fr => ok (VType (Ty (lit "Array") KArray [e] sr fr))))
  | _ => bad
  end.
Definition act_TypeList (cx : ctx) (fp1 sp1 sp2 p fp2 : sem) : res :=
  match p with
  | VType e => with_range cx sp1 sp2 (fun sr => with_range cx fp1 fp2 (fun fr => ok (VType (Ty (lit "List") KList [e] sr fr))))
  | _ => bad
  end.
Definition act_TypeRawList (cx : ctx) (p1 p2 : sem) : res :=
  with_range cx p1 p2 (fun sr => with_range cx p1 p2 (fun fr => ok (VType (Ty (lit "List") KList [] sr fr)))).
Definition act_TypeMap (cx : ctx) (fp1 sp1 sp2 k v fp2 : sem) : res :=
  match k, v with
  | VType kt, VType vt =>
      with_range cx sp1 sp2 (fun sr => with_range cx fp1 fp2 (fun fr => ok (VType (Ty (lit "Map") KMap [kt; vt] sr fr))))
  | _, _ => bad
  end.
Definition act_TypeRawMap (cx : ctx) (p1 p2 : sem) : res :=
  with_range cx p1 p2 (fun sr => with_range cx p1 p2 (fun fr => ok (VType (Ty (lit "Map") KMap [] sr fr)))).
Definition act_TypeCustom (cx : ctx) (p1 n p2 : sem) : res :=
  match n with
  | VString name => with_range cx p1 p2 (fun r => ok (VType (Ty name KUnresolved [] r r)))
  | _ => bad
  end.

Definition act_AnnotationList (cx : ctx) (v : sem) : res :=
  match v with
  | VVec l => match flatten_opts as_annot l with Some an => ok (VVec (map VAnnotation an)) | None => bad end
  | _ => bad
  end.

(* key_values: collect() into a HashMap (a later duplicate key overwrites); canonical form = sorted by key *)
Fixpoint kv_insert (kv : str * option str) (l : list (str * option str)) : list (str * option str) :=
  match l with
  | [] => [kv]
  | x :: l' => if str_eqb (fst kv) (fst x) then kv :: l'
               else if str_ltb (fst kv) (fst x) then kv :: l else x :: kv_insert kv l'
  end.
Definition kvs_of (l : list (str * option str)) : list (str * option str) := fold_left (fun acc kv => kv_insert kv acc) l [].

Definition act_OptAnnotation (cx : ctx) (n v : sem) : res :=
  match n, v with
  | VTok name, VOpt None => ok (VOpt (Some (VAnnotation (Annot name []))))
  | VTok name, VOpt (Some (VVec l)) =>
      match all_of as_kv l with
      | Some kvs => ok (VOpt (Some (VAnnotation (Annot name (kvs_of kvs)))))
      | None => bad
      end
  | _, _ => bad
  end.

Definition act_AnnotationParam (cx : ctx) (k v : sem) : res :=
  match k, v with
  | VTok key, VOpt None => ok (VKV (key, None))
  | VTok key, VOpt (Some (VTok s)) => ok (VKV (key, Some s))
  | _, _ => bad
  end.

Definition act_ValueToString (cx : ctx) (v : sem) : res := match v with VTok s => ok (VString s) | _ => bad end.
Definition act_ValueEmptyBraces (cx : ctx) : res := ok (VString (lit "{}")).
Definition act_ValueBraces (cx : ctx) : res := ok (VString (lit "{...}")).
Definition act_ValueDotted (cx : ctx) (a b : sem) : res :=
  match a, b with VTok x, VTok y => ok (VString (x ++ dotc :: y)) | _, _ => bad end.


(* ---- the user actions as a closed enumeration, so that the regenerated action table is pure data ---- *)
Inductive utag :=
| U_OptAidl | U_Package | U_Import | U_QualifiedName | U_ItemInterface | U_ItemParcelable | U_ItemEnum | U_ErrItem
| U_Interface | U_IEMethod | U_IEConst | U_ErrIE | U_Parcelable | U_PEField | U_PEConst | U_ErrPE
| U_Enum | U_SomeEnumElement | U_ErrEE | U_Method | U_Arg | U_Direction | U_Const | U_Field | U_EnumElement
| U_TypeVoid | U_TypePrimitive | U_TypeString | U_TypeCharSequence | U_TypeArray | U_TypeList | U_TypeRawList
| U_TypeMap | U_TypeRawMap | U_TypeCustom | U_AnnotationList | U_OptAnnotation | U_AnnotationParam
| U_ValueToString | U_ValueEmptyBraces | U_ValueBraces | U_ValueDotted.

(* the action applied to the values it binds, in the order of its Coq parameters *)
Definition user_fn (u : utag) (cx : ctx) (vs : list sem) : res :=
  match u, vs with
  | U_OptAidl, [a; b; c; d] => act_OptAidl cx a b c d
  | U_Package, [a; b; c; d; e] => act_Package cx a b c d e
  | U_Import, [a; b; c; d; e; f] => act_Import cx a b c d e f
  | U_QualifiedName, [a; b] => act_QualifiedName cx a b
  | U_ItemInterface, [a] => act_ItemInterface cx a
  | U_ItemParcelable, [a] => act_ItemParcelable cx a
  | U_ItemEnum, [a] => act_ItemEnum cx a
  | U_ErrItem, [a] => act_ErrItem cx a
  | U_Interface, [a; b; c; d; e; f; g; h; i] => act_Interface cx a b c d e f g h i
  | U_IEMethod, [a] => act_IEMethod cx a
  | U_IEConst, [a] => act_IEConst cx a
  | U_ErrIE, [a] => act_ErrIE cx a
  | U_Parcelable, [a; b; c; d; e; f; g; h] => act_Parcelable cx a b c d e f g h
  | U_PEField, [a] => act_PEField cx a
  | U_PEConst, [a] => act_PEConst cx a
  | U_ErrPE, [a] => act_ErrPE cx a
  | U_Enum, [a; b; c; d; e; f; g; h] => act_Enum cx a b c d e f g h
  | U_SomeEnumElement, [a] => act_SomeEnumElement cx a
  | U_ErrEE, [a] => act_ErrEE cx a
  | U_Method, [a; b; c; d; e; f; g; h; i; j; k; l; m; n; o] => act_Method cx a b c d e f g h i j k l m n o
  | U_Arg, [a; b; c; d; e; f; g] => act_Arg cx a b c d e f g
  | U_Direction, [a; b; c] => act_Direction cx a b c
  | U_Const, [a; b; c; d; e; f; g; h; i] => act_Const cx a b c d e f g h i
  | U_Field, [a; b; c; d; e; f; g; h; i] => act_Field cx a b c d e f g h i
  | U_EnumElement, [a; b; c; d; e; f; g] => act_EnumElement cx a b c d e f g
  | U_TypeVoid, [a; b; c] => act_TypeVoid cx a b c
  | U_TypePrimitive, [a; b; c] => act_TypePrimitive cx a b c
  | U_TypeString, [a; b; c] => act_TypeString cx a b c
  | U_TypeCharSequence, [a; b; c] => act_TypeCharSequence cx a b c
  | U_TypeArray, [a; b; c; d; e] => act_TypeArray cx a b c d e
  | U_TypeList, [a; b; c; d; e] => act_TypeList cx a b c d e
  | U_TypeRawList, [a; b] => act_TypeRawList cx a b
  | U_TypeMap, [a; b; c; d; e; f] => act_TypeMap cx a b c d e f
  | U_TypeRawMap, [a; b] => act_TypeRawMap cx a b
  | U_TypeCustom, [a; b; c] => act_TypeCustom cx a b c
  | U_AnnotationList, [a] => act_AnnotationList cx a
  | U_OptAnnotation, [a; b] => act_OptAnnotation cx a b
  | U_AnnotationParam, [a; b] => act_AnnotationParam cx a b
  | U_ValueToString, [a] => act_ValueToString cx a
  | U_ValueEmptyBraces, [] => act_ValueEmptyBraces cx
  | U_ValueBraces, [] => act_ValueBraces cx
  | U_ValueDotted, [a; b] => act_ValueDotted cx a b
  | _, _ => bad
  end.
