(* src/validation.rs and Parser::validate / collect_item_keys, function by function.
   HashSet<String>/HashMap<String,_> are lists / association lists: the (repaired) code only uses
   membership, lookup and order-insensitive minima on them, and iterates in source order. *)
From AidlV Require Export Model.Category Gen.ValTables Gen.Builtins.

(* ---------- AndroidTypeKind finders ---------- *)
Definition from_name (n : str) : option akind :=
  find (fun a => str_eqb (gen_android_name a) n) gen_all_android.
Definition from_qualified_name (n : str) : option akind :=
  find (fun a => str_eqb (gen_android_qname a) n) gen_all_android.

(* ---------- association lists ---------- *)
Fixpoint assoc {V} (k : str) (l : list (str * V)) : option V :=
  match l with
  | [] => None
  | (k', v) :: l' => if str_eqb k k' then Some v else assoc k l'
  end.

Definition env := list (str * rkind).      (* `defined`: item key -> kind *)

(* ---------- diagnostics constructors (context_message strings as in the source) ---------- *)
Definition mk_diag (k : dkind) (r : range) (ctx : option string) (rel : list range) : diag :=
  Diag k r (option_map lit ctx) rel [].

(* ---------- resolve_type ---------- *)
Definition dot_suffix (name : str) : str := dotc :: name.

(* imports.get(name).or_else(|| imports.iter().filter(ends_with ".name").min()) *)
Definition find_import (imports : list str) (name : str) : option str :=
  if mem_str name imports then Some name
  else min_str (filter (fun p => ends_with p (dot_suffix name)) imports).

Definition unknown_type_diag (sym : range) : diag :=
  mk_diag DError sym (Some "unknown type"%string) [].

(* new kind of an Unresolved node, None = stays unresolved (diagnostic) *)
Definition resolve_name (imports declared : list str) (defined : env) (name : str) : option tkind :=
  let early :=
    match from_qualified_name name with
    | Some a => if gen_can_be_qualified a || mem_str name imports then Some (KAndroid a) else None
    | None => None
    end in
  match early with
  | Some k => Some k
  | None =>
    match find_import imports name with
    | Some ip =>
        match assoc ip defined with
        | Some k => Some (KResolved ip k)
        | None =>
            match from_qualified_name ip with
            | Some a => Some (KAndroid a)
            | None => Some (KResolved ip RUnknownImport)
            end
        end
    | None =>
        if mem_str name declared && negb (contains_char dotc name) then Some (KResolved name RForward)
        else
          match from_qualified_name name with
          | Some a => if gen_can_be_qualified a then Some (KAndroid a) else None
          | None =>
              match from_name name with
              | Some a => Some (KAndroid a)
              | None => None
              end
          end
    end
  end.

Section Resolve.
  Variables (imports declared : list str) (defined : env).

  (* resolve_type on one node: new kind + pushed diagnostics *)
  Definition resolve_node (name : str) (k : tkind) (sym : range) : tkind * list diag :=
    match k with
    | KUnresolved =>
        match resolve_name imports declared defined name with
        | Some k' => (k', [])
        | None => (KUnresolved, [unknown_type_diag sym])
        end
    | _ => (k, [])
    end.

  (* walk_types_mut's helper: node first, then its generic types, recursively *)
  Fixpoint resolve_ty (t : ty) : ty * list diag :=
    let 'Ty n k g s f := t in
    let '(k', d) := resolve_node n k s in
    let '(g', dg) :=
      (fix go (l : list ty) : list ty * list diag :=
         match l with
         | [] => ([], [])
         | x :: l' => let '(x', dx) := resolve_ty x in
                      let '(r, dr) := go l' in (x' :: r, dx ++ dr)
         end) g in
    (Ty n k' g' s f, d ++ dg).

  Definition resolve_arg (a : arg) : arg * list diag :=
    let '(t, d) := resolve_ty (a_ty a) in
    (Arg (a_dir a) (a_name a) t (a_annots a) (a_doc a) (a_sym a) (a_full a), d).

  Fixpoint resolve_args (l : list arg) : list arg * list diag :=
    match l with
    | [] => ([], [])
    | a :: l' => let '(a', d) := resolve_arg a in
                 let '(r, dr) := resolve_args l' in (a' :: r, d ++ dr)
    end.

  Definition resolve_method (m : method) : method * list diag :=
    let '(rt, d1) := resolve_ty (m_ret m) in
    let '(args, d2) := resolve_args (m_args m) in
    (Method (m_oneway m) (m_name m) rt args (m_annots m) (m_code m) (m_doc m) (m_sym m) (m_full m)
            (m_code_range m) (m_oneway_range m), d1 ++ d2).

  Definition resolve_const (c : const) : const * list diag :=
    let '(t, d) := resolve_ty (c_ty c) in
    (Const (c_name c) t (c_value c) (c_annots c) (c_doc c) (c_sym c) (c_full c), d).

  Definition resolve_field (f : field) : field * list diag :=
    let '(t, d) := resolve_ty (f_ty f) in
    (Field (f_name f) t (f_value f) (f_annots f) (f_doc f) (f_sym f) (f_full f), d).

  Definition resolve_ie (e : iface_elem) : iface_elem * list diag :=
    match e with
    | IEMethod m => let '(m', d) := resolve_method m in (IEMethod m', d)
    | IEConst c => let '(c', d) := resolve_const c in (IEConst c', d)
    end.

  Definition resolve_pe (e : parc_elem) : parc_elem * list diag :=
    match e with
    | PEField f => let '(f', d) := resolve_field f in (PEField f', d)
    | PEConst c => let '(c', d) := resolve_const c in (PEConst c', d)
    end.

  Fixpoint map_acc {A} (f : A -> A * list diag) (l : list A) : list A * list diag :=
    match l with
    | [] => ([], [])
    | x :: l' => let '(x', d) := f x in
                 let '(r, dr) := map_acc f l' in (x' :: r, d ++ dr)
    end.

  Definition resolve_item (it : item) : item * list diag :=
    match it with
    | ItInterface i =>
        let '(els, d) := map_acc resolve_ie (i_elems i) in
        (ItInterface (Interface (i_oneway i) (i_name i) els (i_annots i) (i_doc i) (i_full i) (i_sym i)), d)
    | ItParcelable p =>
        let '(els, d) := map_acc resolve_pe (pc_elems p) in
        (ItParcelable (Parcelable (pc_name p) els (pc_annots p) (pc_doc p) (pc_full p) (pc_sym p)), d)
    | ItEnum e => (ItEnum e, [])
    end.
End Resolve.

(* ---------- all type nodes, in walk_types order (arrays: element first) ---------- *)
Fixpoint types_of_ty (t : ty) : list ty :=
  let 'Ty n k g s f := t in
  let sub := (fix go (l : list ty) : list ty :=
                match l with [] => [] | x :: l' => types_of_ty x ++ go l' end) g in
  match k with
  | KArray => sub ++ [t]
  | _ => t :: sub
  end.

(* ... and in walk_types_mut order (always node first) *)
Fixpoint types_of_ty_pre (t : ty) : list ty :=
  let 'Ty n k g s f := t in
  t :: (fix go (l : list ty) : list ty :=
          match l with [] => [] | x :: l' => types_of_ty_pre x ++ go l' end) g.

Definition top_types_ie (e : iface_elem) : list ty :=
  match e with
  | IEMethod m => m_ret m :: map a_ty (m_args m)
  | IEConst c => [c_ty c]
  end.
Definition top_types_pe (e : parc_elem) : list ty :=
  match e with PEField f => [f_ty f] | PEConst c => [c_ty c] end.

(* the types written directly in members (return type, argument, field, constant), in source order *)
Definition top_types (it : item) : list ty :=
  match it with
  | ItInterface i => flat_map top_types_ie (i_elems i)
  | ItParcelable p => flat_map top_types_pe (pc_elems p)
  | ItEnum _ => []
  end.

Definition all_types (it : item) : list ty := flat_map types_of_ty (top_types it).
Definition all_types_pre (it : item) : list ty := flat_map types_of_ty_pre (top_types it).

(* the `resolved` set built by resolve_types *)
Definition resolved_key (k : tkind) : list str :=
  match k with
  | KResolved key _ => [key]
  | KCharSequence => [lit "java.lang.CharSequence"]
  | KString => [lit "java.lang.String"]
  | KAndroid a => [gen_android_qname a]
  | _ => []
  end.
Definition resolved_set (it : item) : list str :=
  flat_map (fun t => resolved_key (ty_kind t)) (all_types_pre it).

(* ---------- check_imports ---------- *)
(* returns diagnostics of pass 1 (duplicates), the first occurrences in source order *)
Fixpoint imports_pass1 (seen : list (str * import)) (l : list import) : list diag * list import :=
  match l with
  | [] => ([], [])
  | i :: l' =>
      let q := import_qname i in
      match assoc q seen with
      | Some prev =>
          let '(d, firsts) := imports_pass1 seen l' in
          (mk_diag DError (im_sym i) (Some "duplicated import"%string) [im_sym prev] :: d, firsts)
      | None =>
          let '(d, firsts) := imports_pass1 ((q, i) :: seen) l' in
          (d, i :: firsts)
      end
  end.

Definition import_pass2 (resolved : list str) (defined : env) (i : import) : list diag :=
  let q := import_qname i in
  if negb (match assoc q defined with Some _ => true | None => false end)
     && negb (match from_qualified_name q with Some _ => true | None => false end)
  then [mk_diag DWarning (im_sym i) (Some "unresolved import"%string) []]
  else if negb (mem_str q resolved)
  then [mk_diag DWarning (im_sym i) (Some "unused import"%string) []]
  else [].

Definition check_imports (imports : list import) (resolved : list str) (defined : env)
  : list diag * list import :=
  let '(d1, firsts) := imports_pass1 [] imports in
  (d1 ++ flat_map (import_pass2 resolved defined) firsts, firsts).

(* ---------- check_declared_parcelables ---------- *)
(* the conflicting import named: least qualified name among the (first-occurrence) imports with that simple name *)
Fixpoint min_import (l : list import) : option import :=
  match l with
  | [] => None
  | i :: l' => match min_import l' with
               | None => Some i
               | Some m => Some (if str_ltb (import_qname m) (import_qname i) then m else i)
               end
  end.

Definition conflicting_import (import_firsts : list import) (d : import) : option import :=
  min_import (filter (fun i => str_eqb (im_name i) (im_name d)) import_firsts).

Fixpoint declared_pass1 (import_firsts : list import) (seen : list (str * import)) (l : list import)
  : list diag * list import :=
  match l with
  | [] => ([], [])
  | p :: l' =>
      let q := import_qname p in
      match conflicting_import import_firsts p with
      | Some c =>
          let '(d, firsts) := declared_pass1 import_firsts seen l' in
          (mk_diag DError (im_sym p) (Some "conflicting declaration"%string) [im_sym c] :: d, firsts)
      | None =>
          match assoc q seen with
          | Some prev =>
              let '(d, firsts) := declared_pass1 import_firsts seen l' in
              (mk_diag DError (im_sym p) (Some "duplicated declaration"%string) [im_sym prev] :: d, firsts)
          | None =>
              let '(d, firsts) := declared_pass1 import_firsts ((q, p) :: seen) l' in
              (d, p :: firsts)
          end
      end
  end.

Definition declared_pass2 (resolved : list str) (p : import) : list diag :=
  if negb (mem_str (import_qname p) resolved)
  then [mk_diag DWarning (im_sym p) (Some "unused declared parcelable"%string) []]
  else [mk_diag DWarning (im_full p) (Some "declared parcelable"%string) []].

Definition check_declared (declared : list import) (import_firsts : list import) (resolved : list str)
  : list diag :=
  let '(d1, firsts) := declared_pass1 import_firsts [] declared in
  d1 ++ flat_map (declared_pass2 resolved) firsts.

(* ---------- check_containers ---------- *)
Definition elem_diag (ctx : string) (t : ty) : diag := mk_diag DError (ty_sym t) (Some ctx) [].

Definition check_array_element (t : ty) : list diag :=
  match gen_array (cat (ty_kind t)) with
  | AOk => []
  | ABad => [elem_diag "invalid parameter" t]
  | AMulti => [elem_diag "unsupported array" t]
  end.
Definition check_list_element (t : ty) : list diag :=
  if gen_list_ok (cat (ty_kind t)) then [] else [elem_diag "invalid element" t].
Definition check_map_key (t : ty) : list diag :=
  if gen_mapkey_ok (cat (ty_kind t)) (ty_name t) then [] else [elem_diag "invalid map key" t].
Definition check_map_value (t : ty) : list diag :=
  if gen_mapval_ok (cat (ty_kind t)) then [] else [elem_diag "invalid map value" t].

(* None = the Rust code would panic (index out of range / unreachable!) *)
Definition check_container (t : ty) : option (list diag) :=
  match ty_kind t, ty_generics t with
  | KArray, v :: _ => Some (check_array_element v)
  | KArray, [] => None
  | KList, [] => Some [mk_diag DWarning (ty_sym t) (Some "non-generic list"%string) []]
  | KList, [v] => Some (check_list_element v)
  | KList, _ => None
  | KMap, [] => Some [mk_diag DWarning (ty_sym t) (Some "non-generic map"%string) []]
  | KMap, [k; v] => Some (check_map_key k ++ check_map_value v)
  | KMap, _ => None
  | _, _ => Some []
  end.

Fixpoint concat_opt {A} (l : list (option (list A))) : option (list A) :=
  match l with
  | [] => Some []
  | None :: _ => None
  | Some x :: l' => match concat_opt l' with Some r => Some (x ++ r) | None => None end
  end.

Definition check_containers (it : item) : option (list diag) :=
  concat_opt (map check_container (all_types it)).

(* ---------- set_up_oneway_interface ---------- *)
Definition oneway_method (isym : range) (m : method) : method * list diag :=
  if m_oneway m
  then (m, [mk_diag DWarning (m_oneway_range m) (Some "redundant oneway"%string) [isym]])
  else (Method true (m_name m) (m_ret m) (m_args m) (m_annots m) (m_code m) (m_doc m) (m_sym m) (m_full m)
               (m_code_range m) (m_oneway_range m), []).

Definition oneway_ie (isym : range) (e : iface_elem) : iface_elem * list diag :=
  match e with
  | IEConst c => (IEConst c, [])
  | IEMethod m => let '(m', d) := oneway_method isym m in (IEMethod m', d)
  end.

Definition set_up_oneway (it : item) : item * list diag :=
  match it with
  | ItInterface i =>
      if i_oneway i then
        let '(els, d) := map_acc (oneway_ie (i_sym i)) (i_elems i) in
        (ItInterface (Interface (i_oneway i) (i_name i) els (i_annots i) (i_doc i) (i_full i) (i_sym i)), d)
      else (it, [])
  | _ => (it, [])
  end.

(* ---------- check_method / check_method_args ---------- *)
Definition dir_range (a : arg) : range :=
  match a_dir a with
  | DIn r | DOut r | DInOut r => r
  | DUnspecified => Rng (r_start (ty_sym (a_ty a))) (r_start (ty_sym (a_ty a)))
  end.

Definition is_unspecified (d : direction) := match d with DUnspecified => true | _ => false end.
Definition is_in (d : direction) := match d with DIn _ => true | _ => false end.
Definition is_out (d : direction) := match d with DOut _ => true | _ => false end.
Definition is_inout (d : direction) := match d with DInOut _ => true | _ => false end.

Definition check_arg (oneway : bool) (a : arg) : list diag :=
  let r := dir_range a in
  let d := a_dir a in
  (match gen_requirement (cat (ty_kind (a_ty a))) with
   | ReqRequired => if is_unspecified d then [mk_diag DError r (Some "missing direction"%string) []] else []
   | ReqInOrNone => if negb (is_unspecified d || is_in d)
                    then [mk_diag DError r (Some "invalid direction"%string) []] else []
   | ReqInOrInout => if negb (is_in d || is_inout d)
                     then [mk_diag DError r (Some "invalid direction"%string) []] else []
   | ReqNever => [mk_diag DError r (Some "invalid argument"%string) []]
   | ReqNone => []
   end) ++
  (if oneway && (is_out d || is_inout d)
   then [mk_diag DError r (Some "invalid direction"%string) []] else []).

Definition is_void (k : tkind) := match k with KVoid => true | _ => false end.

Definition check_method (m : method) : list diag :=
  (if m_oneway m && negb (is_void (ty_kind (m_ret m)))
   then [mk_diag DError (ty_sym (m_ret m)) (Some "must be void"%string) []] else []) ++
  flat_map (check_arg (m_oneway m)) (m_args m).

(* ---------- check_methods ---------- *)
Fixpoint assocN {V} (k : N) (l : list (N * V)) : option V :=
  match l with
  | [] => None
  | (k', v) :: l' => if N.eqb k k' then Some v else assocN k l'
  end.

Record mstate := MS {
  ms_names : list (str * method);
  ms_first_without : option method;
  ms_first_with : option method;
  ms_ids : list (N * method) }.

Definition ms_init := MS [] None None [].

Definition is_some {A} (o : option A) := match o with Some _ => true | None => false end.

(* None = `unwrap()` on None *)
Definition methods_step (st : mstate) (m : method) : option (mstate * list diag) :=
  let d0 := check_method m in
  match assoc (m_name m) (ms_names st) with
  | Some prev =>
      Some (st, d0 ++ [mk_diag DError (m_sym m) (Some "duplicated method name"%string) [m_sym prev]])
  | None =>
      let names := (m_name m, m) :: ms_names st in
      let mixed_with := negb (is_some (ms_first_with st)) && is_some (ms_first_without st) && is_some (m_code m) in
      let mixed_without := negb (is_some (ms_first_without st)) && negb (is_empty (ms_ids st)) && negb (is_some (m_code m)) in
      let dmixed :=
        if mixed_with || mixed_without then
          match (if mixed_with then ms_first_without st else ms_first_with st) with
          | Some p => Some [mk_diag DError (m_code_range m) None [m_code_range p]]
          | None => None
          end
        else Some [] in
      match dmixed with
      | None => None
      | Some dm =>
          let fw := if is_some (m_code m) then (if is_some (ms_first_with st) then ms_first_with st else Some m) else ms_first_with st in
          let fwo := if is_some (m_code m) then ms_first_without st else (if is_some (ms_first_without st) then ms_first_without st else Some m) in
          match m_code m with
          | Some id =>
              match assocN id (ms_ids st) with
              | Some prev =>
                  Some (MS names fwo fw (ms_ids st),
                        d0 ++ dm ++ [mk_diag DError (m_code_range m) (Some "duplicated import"%string) [m_code_range prev]])
              | None => Some (MS names fwo fw ((id, m) :: ms_ids st), d0 ++ dm)
              end
          | None => Some (MS names fwo fw (ms_ids st), d0 ++ dm)
          end
      end
  end.

Fixpoint methods_loop (st : mstate) (l : list method) : option (list diag) :=
  match l with
  | [] => Some []
  | m :: l' =>
      match methods_step st m with
      | None => None
      | Some (st', d) => match methods_loop st' l' with Some r => Some (d ++ r) | None => None end
      end
  end.

Definition methods_of (it : item) : list method :=
  match it with
  | ItInterface i => flat_map (fun e => match e with IEMethod m => [m] | IEConst _ => [] end) (i_elems i)
  | _ => []
  end.

Definition check_methods (it : item) : option (list diag) := methods_loop ms_init (methods_of it).

(* ---------- stable sort by start offset (Vec::sort_by_key is a stable sort) ---------- *)
Definition start_off (d : diag) : N := p_off (r_start (d_range d)).

Fixpoint insert_diag (d : diag) (l : list diag) : list diag :=
  match l with
  | [] => [d]
  | x :: l' => if N.leb (start_off d) (start_off x) then d :: l else x :: insert_diag d l'
  end.
(* stable: fold_right inserts an element into the sorted tail of the elements that followed it,
   in front of those with an equal key *)
Definition sort_diags (l : list diag) : list diag := fold_right insert_diag [] l.

(* ---------- one file ---------- *)
Inductive outcome (A : Type) := Ok (a : A) | Panic.
Arguments Ok {A} a.
Arguments Panic {A}.

Definition validate_file (defined : env) (a : aidl) (ds0 : list diag) : outcome (aidl * list diag) :=
  let imports := map import_qname (ai_imports a) in
  let declared := map import_qname (ai_declared a) in
  let '(it1, d_res) := resolve_item imports declared defined (ai_item a) in
  let resolved := resolved_set it1 in
  let '(d_imp, firsts) := check_imports (ai_imports a) resolved defined in
  let d_decl := check_declared (ai_declared a) firsts resolved in
  match check_containers it1 with
  | None => Panic
  | Some d_cont =>
      let '(it2, d_ow) := set_up_oneway it1 in
      match check_methods it2 with
      | None => Panic
      | Some d_meth =>
          Ok (Aidl (ai_package a) (ai_imports a) (ai_declared a) it2,
              sort_diags (ds0 ++ d_res ++ d_imp ++ d_decl ++ d_cont ++ d_ow ++ d_meth))
      end
  end.

(* ---------- collect_item_keys and validate ---------- *)
Definition rank (k : rkind) : N :=
  match k with RInterface => 0 | RParcelable => 1 | REnum => 2 | RForward => 3 | RUnknownImport => 4 end.

Fixpoint env_insert (key : str) (k : rkind) (e : env) : env :=
  match e with
  | [] => [(key, k)]
  | (key', k') :: e' =>
      if str_eqb key key' then (key', if N.leb (rank k') (rank k) then k' else k) :: e'
      else (key', k') :: env_insert key k e'
  end.

Definition collect_item_keys (files : list file_result) : env :=
  fold_left (fun e fr => match fr_ast fr with
                         | Some a => env_insert (get_key a) (item_kind (ai_item a)) e
                         | None => e
                         end) files [].

Definition validate_one (defined : env) (fr : file_result) : outcome file_result :=
  match fr_ast fr with
  | None => Ok fr
  | Some a =>
      match validate_file defined a (fr_diags fr) with
      | Ok (a', ds) => Ok (FR (fr_id fr) (Some a') ds)
      | Panic => Panic
      end
  end.

Fixpoint sequence {A} (l : list (outcome A)) : outcome (list A) :=
  match l with
  | [] => Ok []
  | Panic :: _ => Panic
  | Ok x :: l' => match sequence l' with Ok r => Ok (x :: r) | Panic => Panic end
  end.

Definition validate (files : list file_result) : outcome (list file_result) :=
  sequence (map (validate_one (collect_item_keys files)) files).
