(* lalrpop_util::lexer::Matcher::next over the regenerated regex table *)
From AidlV Require Export Lib.Regex Model.Sem Gen.LexTable.

(* longest match over all regexes; `>=` keeps the LAST index among equally long ones *)
Fixpoint best_match (fuel : nat) (tbl : list (re * bool)) (i : N) (s : str) (best : nat * N * bool) : nat * N * bool :=
  match tbl with
  | [] => best
  | (r, skip) :: tbl' =>
      let best' := match match_len_fuel fuel r s with
                   | Some n => if Nat.leb (fst (fst best)) n then (n, i, skip) else best
                   | None => best
                   end in
      best_match fuel tbl' (N.succ i) s best'
  end.

Definition any_match (fuel : nat) (tbl : list (re * bool)) (s : str) : bool :=
  existsb (fun e => match match_len_fuel fuel (fst e) s with Some _ => true | None => false end) tbl.

Inductive lexed :=
| LTok (start : N) (idx : N) (text : str) (stop : N) (rest : str)    (* a token, and the text after it *)
| LEof
| LInvalid (loc : N).

(* one call of next(): skips trivia; fuel bounds the skip loop (every skipped match is non-empty) *)
Fixpoint lex_next (tbl : list (re * bool)) (fuel : nat) (s : str) (off : N) : lexed :=
  match fuel with
  | O => LEof
  | S fuel' =>
      match s with
      | [] => LEof
      | _ =>
          if negb (any_match fuel tbl s) then LInvalid off
          else
            let '(n, idx, skip) := best_match fuel tbl 0 s (O, 0, false) in
            let text := firstn n s in
            let rest := skipn n s in
            let stop := off + byte_len text in
            if skip then (if Nat.eqb n 0 then LInvalid off else lex_next tbl fuel' rest stop)
            else LTok off idx text stop rest
      end
  end.

Definition lex1 (s : str) (off : N) : lexed := lex_next gen_lex_table (S (length s)) s off.

(* the whole token stream (for tests and for the lexical theorems) *)
Fixpoint lex_all (fuel : nat) (s : str) (off : N) : list (N * N * str * N) * option N :=
  match fuel with
  | O => ([], None)
  | S fuel' =>
      match lex1 s off with
      | LTok a i t b rest => let '(l, e) := lex_all fuel' rest b in ((a, i, t, b) :: l, e)
      | LEof => ([], None)
      | LInvalid loc => ([], Some loc)
      end
  end.

(* do two texts lex to the same tokens (same table entry, same text)?  The executable form of the hypothesis of the
   C02 theorem (Proofs/Lockstep.v: lexsim_b_sound) *)
Fixpoint lexsim_b (fuel : nat) (s1 : str) (o1 : N) (s2 : str) (o2 : N) : bool :=
  match fuel with
  | O => false
  | S f =>
      match lex1 s1 o1, lex1 s2 o2 with
      | LEof, LEof => true
      | LInvalid _, LInvalid _ => true
      | LTok _ i1 t1 e1 r1, LTok _ i2 t2 e2 r2 => N.eqb i1 i2 && str_eqb t1 t2 && lexsim_b f r1 e1 r2 e2
      | _, _ => false
      end
  end.

