(* serde's data model as far as ast.rs uses it, and the generic part of #[derive(Serialize, Deserialize)]:
   structs as maps from (renamed) field names to values, skip_serializing_if, default, externally tagged enums. *)
From AidlV Require Export Model.Ast.

Inductive skip_kind := SkNever | SkVecIsEmpty | SkOptionIsNone | SkHashMapIsEmpty | SkDirectionIsUnspecified | SkBoolIsTrue.
Inductive default_kind := DfNone | DfDefault | DfTrue.
Record fspec := FS { fs_rust : string; fs_name : string; fs_skip : skip_kind; fs_default : default_kind; fs_type : string }.
Record vspec := VS { vs_rust : string; vs_name : string; vs_arity : nat }.

Definition spec_of (l : list fspec) (rust : string) : fspec :=
  match find (fun f => String.eqb (fs_rust f) rust) l with
  | Some f => f
  | None => FS rust "" SkNever DfNone ""      (* the Rust field is gone: an empty name, caught by the shape lemmas *)
  end.
Definition vname_of (l : list vspec) (rust : string) : string :=
  match find (fun v => String.eqb (vs_rust v) rust) l with Some v => vs_name v | None => EmptyString end.

Inductive sval :=
| VBool (b : bool) | VNat (n : N) | VStr (s : str)
| VNone | VSome (v : sval)
| VSeq (l : list sval) | VTuple (l : list sval)
| VMap (l : list (sval * sval))
| VStruct (fields : list (str * sval))
| VVariant (name : str) (payload : list sval).

Record codec (T : Type) := Codec {
  enc : T -> sval;
  dec : sval -> option T;
  skips : skip_kind -> T -> bool;          (* does the skip predicate hold for this value? *)
  missing : default_kind -> option T }.    (* value of a missing field, None = deserialisation error *)
Arguments enc {T}. Arguments dec {T}. Arguments skips {T}. Arguments missing {T}.

Definition codec_ok {T} (c : codec T) : Prop := forall v, dec c (enc c v) = Some v.
(* the condition that makes skipping safe: whatever is skipped is exactly what a missing field yields *)
Definition consistent {T} (sp : fspec) (c : codec T) : Prop :=
  forall v, skips c (fs_skip sp) v = true -> missing c (fs_default sp) = Some v.

Definition obind {X Y} (o : option X) (f : X -> option Y) : option Y := match o with Some x => f x | None => None end.
Notation "'do' x <- e ; k" := (obind e (fun x => k)) (at level 200, x pattern, e at level 100, k at level 200).

(* ---- base codecs ---- *)
Definition cd_bool : codec bool :=
  Codec bool VBool (fun v => match v with VBool b => Some b | _ => None end)
        (fun k b => match k with SkBoolIsTrue => b | _ => false end)
        (fun d => match d with DfNone => None | DfDefault => Some false | DfTrue => Some true end).
Definition cd_nat : codec N :=
  Codec N VNat (fun v => match v with VNat n => Some n | _ => None end) (fun _ _ => false)
        (fun d => match d with DfDefault => Some 0 | _ => None end).
Definition cd_str : codec str :=
  Codec str VStr (fun v => match v with VStr s => Some s | _ => None end) (fun _ _ => false)
        (fun d => match d with DfDefault => Some [] | _ => None end).

Definition cd_option {T} (c : codec T) : codec (option T) :=
  Codec (option T)
        (fun o => match o with Some x => VSome (enc c x) | None => VNone end)
        (fun v => match v with VNone => Some None | VSome x => do y <- dec c x; Some (Some y) | _ => None end)
        (fun k o => match k, o with SkOptionIsNone, None => true | _, _ => false end)
        (fun _ => Some None).                (* serde: a missing Option field is None, with or without `default` *)

Fixpoint dec_all {T} (d : sval -> option T) (l : list sval) : option (list T) :=
  match l with [] => Some [] | x :: l' => do y <- d x; do r <- dec_all d l'; Some (y :: r) end.

Definition cd_vec {T} (c : codec T) : codec (list T) :=
  Codec (list T)
        (fun l => VSeq (map (enc c) l))
        (fun v => match v with VSeq l => dec_all (dec c) l | _ => None end)
        (fun k l => match k with SkVecIsEmpty => is_empty l | _ => false end)
        (fun d => match d with DfDefault => Some [] | _ => None end).

(* HashMap<String, Option<String>> in canonical (sorted) order *)
Definition cd_kvs : codec (list (str * option str)) :=
  Codec _
        (fun l => VMap (map (fun kv => (VStr (fst kv), enc (cd_option cd_str) (snd kv))) l))
        (fun v => match v with
                  | VMap l =>
                      (fix go (l : list (sval * sval)) : option (list (str * option str)) :=
                         match l with
                         | [] => Some []
                         | (VStr k, x) :: l' => do y <- dec (cd_option cd_str) x; do r <- go l'; Some ((k, y) :: r)
                         | _ => None
                         end) l
                  | _ => None
                  end)
        (fun k l => match k with SkHashMapIsEmpty => is_empty l | _ => false end)
        (fun d => match d with DfDefault => Some [] | _ => None end).

(* ---- structs ---- *)
Definition sfield := (string * sval * bool)%type.     (* serialised name, value, skipped? *)
Definition mkf {T} (sp : fspec) (c : codec T) (v : T) : sfield := (fs_name sp, enc c v, skips c (fs_skip sp) v).
Fixpoint lookf (name : str) (l : list (str * sval)) : option sval :=
  match l with [] => None | (k, v) :: l' => if str_eqb name k then Some v else lookf name l' end.
Definition fields_of (l : list sfield) : list (str * sval) :=
  map (fun f => (lit (fst (fst f)), snd (fst f))) (filter (fun f => negb (snd f)) l).
Definition ser_struct (l : list sfield) : sval := VStruct (fields_of l).
Definition getf {T} (sp : fspec) (c : codec T) (fields : list (str * sval)) : option T :=
  match lookf (lit (fs_name sp)) fields with
  | Some v => dec c v
  | None => missing c (fs_default sp)
  end.
