(* src/traverse.rs and src/symbol.rs.  The visitor closure is an FnMut: it is modelled as a state-passing
   function  S -> symbol -> S * option V  (Some v = ControlFlow::Break(v)). *)
From AidlV Require Export Model.Ast.

Inductive const_owner := OwnerInterface (i : interface) | OwnerParcelable (p : parcelable).

Inductive symbol :=
| SPackage (p : package)
| SImport (i : import)
| SInterface (i : interface) (p : package)
| SParcelable (pc : parcelable) (p : package)
| SEnum (e : enum) (p : package)
| SMethod (m : method) (i : interface)
| SArg (a : arg) (m : method)
| SConst (c : const) (o : const_owner)
| SField (f : field) (pc : parcelable)
| SEnumElement (el : enum_elem) (e : enum)
| SType (t : ty).

Inductive sfilter := FItemsOnly | FItemsAndElements | FAll.

Definition is_all (f : sfilter) := match f with FAll => true | _ => false end.
Definition is_items_only (f : sfilter) := match f with FItemsOnly => true | _ => false end.

(* ---------------- symbol.rs ---------------- *)
Definition owner_name (o : const_owner) : str :=
  match o with OwnerInterface i => i_name i | OwnerParcelable p => pc_name p end.

Definition sym_name (s : symbol) : option str :=
  match s with
  | SPackage p => Some (pk_name p)
  | SImport i => Some (import_qname i)
  | SInterface i _ => Some (i_name i)
  | SParcelable p _ => Some (pc_name p)
  | SEnum e _ => Some (e_name e)
  | SMethod m _ => Some (m_name m)
  | SArg a _ => a_name a
  | SConst c _ => Some (c_name c)
  | SField f _ => Some (f_name f)
  | SEnumElement el _ => Some (ee_name el)
  | SType t => Some (ty_name t)
  end.

Definition colons (a b : str) : str := a ++ 58 :: 58 :: b.     (* format!("{}::{}", a, b) *)
Definition dotted (a b : str) : str := a ++ dotc :: b.          (* format!("{}.{}", a, b) *)

Definition sym_qname (s : symbol) : option str :=
  match s with
  | SPackage p => Some (pk_name p)
  | SImport i => Some (import_qname i)
  | SInterface i pkg => Some (dotted (pk_name pkg) (i_name i))
  | SParcelable p pkg => Some (dotted (pk_name pkg) (pc_name p))
  | SEnum e pkg => Some (dotted (pk_name pkg) (e_name e))
  | SMethod m i => Some (colons (i_name i) (m_name m))
  | SArg a _ => a_name a
  | SConst c o => Some (colons (owner_name o) (c_name c))
  | SField f p => Some (colons (pc_name p) (f_name f))
  | SEnumElement el e => Some (colons (e_name e) (ee_name el))
  | SType t => match ty_kind t with KResolved q _ => Some q | _ => None end
  end.

Definition sym_range (s : symbol) : range :=
  match s with
  | SPackage p => pk_sym p | SImport i => im_sym i | SInterface i _ => i_sym i | SParcelable p _ => pc_sym p
  | SEnum e _ => e_sym e | SMethod m _ => m_sym m | SArg a _ => a_sym a | SConst c _ => c_sym c
  | SField f _ => f_sym f | SEnumElement el _ => ee_sym el | SType t => ty_sym t
  end.

Definition sym_full (s : symbol) : range :=
  match s with
  | SPackage p => pk_full p | SImport i => im_full i | SInterface i _ => i_full i | SParcelable p _ => pc_full p
  | SEnum e _ => e_full e | SMethod m _ => m_full m | SArg a _ => a_full a | SConst c _ => c_full c
  | SField f _ => f_full f | SEnumElement el _ => ee_full el | SType t => ty_full t
  end.

Definition sym_tag (s : symbol) : N :=
  match s with
  | SPackage _ => 0 | SImport _ => 1 | SInterface _ _ => 2 | SParcelable _ _ => 3 | SEnum _ _ => 4
  | SMethod _ _ => 5 | SArg _ _ => 6 | SConst _ _ => 7 | SField _ _ => 8 | SEnumElement _ _ => 9 | SType _ => 10
  end.

(* ---------------- walk_symbols_with_control_flow ---------------- *)
Section Walk.
  Context {S V : Type}.
  Definition M := S -> S * option V.
  Variable f : S -> symbol -> S * option V.

  Definition ret : M := fun s => (s, None).
  (* `a?; b` *)
  Definition andthen (a b : M) : M :=
    fun s => let '(s', r) := a s in match r with Some v => (s', Some v) | None => b s' end.
  Definition call (x : symbol) : M := fun s => f s x.
  (* iter().try_for_each(g) *)
  Fixpoint each {A} (g : A -> M) (l : list A) : M :=
    match l with [] => ret | x :: l' => andthen (g x) (each g l') end.

  Fixpoint visit_type (t : ty) : M :=
    let 'Ty n k g s fu := t in
    let sub := (fix go (l : list ty) : M := match l with [] => ret | x :: l' => andthen (visit_type x) (go l') end) g in
    match k with
    | KArray => andthen sub (call (SType t))
    | _ => andthen (call (SType t)) sub
    end.

  Definition when (b : bool) (m : M) : M := if b then m else ret.

  Definition walk_cf (flt : sfilter) (a : aidl) : M :=
    andthen
      (when (is_all flt)
         (andthen (call (SPackage (ai_package a))) (each (fun i => call (SImport i)) (ai_imports a))))
      (match ai_item a with
       | ItInterface i =>
           andthen (call (SInterface i (ai_package a)))
             (if is_items_only flt then ret else
                each (fun el =>
                        match el with
                        | IEMethod m =>
                            andthen (call (SMethod m i))
                              (when (is_all flt)
                                 (andthen (visit_type (m_ret m))
                                    (each (fun x => andthen (call (SArg x m)) (visit_type (a_ty x))) (m_args m))))
                        | IEConst c =>
                            andthen (call (SConst c (OwnerInterface i))) (when (is_all flt) (visit_type (c_ty c)))
                        end) (i_elems i))
       | ItParcelable p =>
           andthen (call (SParcelable p (ai_package a)))
             (if is_items_only flt then ret else
                each (fun el =>
                        match el with
                        | PEField x => andthen (call (SField x p)) (when (is_all flt) (visit_type (f_ty x)))
                        | PEConst c =>
                            andthen (call (SConst c (OwnerParcelable p))) (when (is_all flt) (visit_type (c_ty c)))
                        end) (pc_elems p))
       | ItEnum e =>
           andthen (call (SEnum e (ai_package a)))
             (if is_items_only flt then ret else each (fun el => call (SEnumElement el e)) (e_elems e))
       end).
End Walk.

(* walk_symbols: the closure always continues; collecting the visited symbols *)
Definition walk_collect (flt : sfilter) (a : aidl) : list symbol :=
  rev (fst (walk_cf (V := unit) (fun acc x => (x :: acc, None)) flt a [])).

(* filter_symbols *)
Definition filter_symbols (flt : sfilter) (p : symbol -> bool) (a : aidl) : list symbol :=
  rev (fst (walk_cf (V := unit) (fun acc x => (if p x then x :: acc else acc, None)) flt a [])).

(* find_symbol with a stateful predicate  p : S -> symbol -> S * bool *)
Definition find_symbol_st {S} (p : S -> symbol -> S * bool) (flt : sfilter) (a : aidl) (s0 : S) : option symbol :=
  snd (walk_cf (fun s x => let '(s', b) := p s x in (s', if b then Some x else None)) flt a s0).

Definition find_symbol (p : symbol -> bool) (flt : sfilter) (a : aidl) : option symbol :=
  find_symbol_st (fun (_ : unit) x => (tt, p x)) flt a tt.

(* range_contains *)
Definition range_contains (r : range) (line col : N) : bool :=
  let sl := p_line (r_start r) in let sc := p_col (r_start r) in
  let el := p_line (r_end r) in let ec := p_col (r_end r) in
  if N.ltb line sl then false
  else if N.eqb sl line && N.ltb col sc then false
  else if N.ltb el line then false
  else if N.eqb el line && N.ltb ec col then false
  else true.

Definition find_symbol_at (flt : sfilter) (a : aidl) (line col : N) : option symbol :=
  find_symbol (fun s => range_contains (sym_range s) line col) flt a.
