(* Values on the LR parser's symbol stack, parse errors, and positions (ast::Position::new via line_col) *)
From AidlV Require Export Model.Ast Model.Diag.

(* the source text and, per character index (plus one entry for the end), the (line, column) that
   LineColLookup::get_by_cluster returns there *)
Record ctx := Ctx { cx_src : str; cx_lc : list (N * N) }.

Definition utf8_len (c : N) : N := if N.ltb c 128 then 1 else if N.ltb c 2048 then 2 else if N.ltb c 65536 then 3 else 4.
Fixpoint byte_len (s : str) : N := match s with [] => 0 | c :: s' => utf8_len c + byte_len s' end.

(* character index of a byte offset; None when the offset is not a character boundary inside the text *)
Fixpoint char_index (s : str) (off : N) (idx : nat) : option nat :=
  if N.eqb off 0 then Some idx
  else match s with
       | [] => None
       | c :: s' => let l := utf8_len c in if N.ltb off l then None else char_index s' (off - l) (S idx)
       end.

(* Position::new: get_by_cluster panics (None) beyond the end or off a character boundary *)
Definition mk_pos (cx : ctx) (off : N) : option pos :=
  match char_index (cx_src cx) off O with
  | Some i => match nth_error (cx_lc cx) i with Some (l, c) => Some (Pos off l c) | None => None end
  | None => None
  end.
Definition mk_range (cx : ctx) (s e : N) : option range :=
  match mk_pos cx s with
  | Some p1 => match mk_pos cx e with Some p2 => Some (Rng p1 p2) | None => None end
  | None => None
  end.

Inductive perr :=
| EInvalidToken (loc : N)
| EUnrecognizedEOF (loc : N) (expected : list str)
| EUnrecognizedToken (s : N) (tok : str) (e : N) (expected : list str)
| EExtraToken (s : N) (tok : str) (e : N).

Inductive sem :=
| VTok (s : str) | VLoc (n : N) | VString (s : str)
| VOpt (o : option sem) | VVec (l : list sem) | VTuple (l : list sem)
| VErr (e : perr)
| VPackage (p : package) | VImport (i : import) | VItem (it : item) | VAidl (a : aidl)
| VInterface (i : interface) | VParcelable (p : parcelable) | VEnum (e : enum)
| VMethod (m : method) | VArg (a : arg) | VDirection (d : direction) | VConst (c : const) | VField (f : field)
| VEnumElem (e : enum_elem) | VType (t : ty) | VAnnotation (a : annotation)
| VIE (e : iface_elem) | VPE (e : parc_elem) | VKV (kv : str * option str)
| VBad        (* an action applied to values of the wrong shape: never happens with lalrpop's own tables *)
| VPanic.     (* the Rust code would have panicked *)

Definition triple := (N * sem * N)%type.
Definition tstart (t : triple) : N := fst (fst t).
Definition tval (t : triple) : sem := snd (fst t).
Definition tend (t : triple) : N := snd t.

Definition vec_push (v e : sem) : sem := match v with VVec l => VVec (l ++ [e]) | _ => VBad end.
Definition vec_push_opt (v e : sem) : sem :=
  match v, e with
  | VVec l, VOpt None => VVec l
  | VVec l, VOpt (Some x) => VVec (l ++ [x])
  | _, _ => VBad
  end.

(* Diagnostic::from_parse_error *)
Definition backtick : N := 96.
Definition diag_of_error (cx : ctx) (e : perr) : option diag :=
  match e with
  | EInvalidToken loc =>
      option_map (fun r => Diag DError r (Some (lit "invalid token")) [] (lit "Invalid token")) (mk_range cx loc loc)
  | EUnrecognizedEOF loc expected =>
      option_map (fun r => Diag DError r (Some (lit "unrecognized EOF")) []
                                (lit "Unrecognized EOF." ++ [10] ++ expected_token_str expected)) (mk_range cx loc loc)
  | EUnrecognizedToken s tok e expected =>
      option_map (fun r => Diag DError r (Some (lit "unrecognized token")) []
                                (lit "Unrecognized token `" ++ tok ++ lit "`." ++ [10] ++ expected_token_str expected))
                 (mk_range cx s e)
  | EExtraToken s tok e =>
      option_map (fun r => Diag DError r (Some (lit "extra token")) [] (lit "Extra token `" ++ tok ++ lit "`")) (mk_range cx s e)
  end.

(* Diagnostic::from_error_recovery *)
Definition diag_of_recovery (cx : ctx) (label : string) (e : perr) : option diag :=
  option_map (fun d => Diag (d_kind d) (d_range d) (d_ctx d) (d_related d) (lit label ++ lit " - " ++ d_msg d)) (diag_of_error cx e).
