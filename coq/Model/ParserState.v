(* src/parser.rs: the parser as a state machine.  The per-file parse is a parameter (any function of id and
   content): nothing here depends on the grammar.  HashMap<ID, ParseFileResult> = association list. *)
From AidlV Require Export Model.Validation.

Section Parser.
  Variable parse : str -> str -> file_result.        (* add_content's parse of (id, content) *)
  Variable fs : str -> option str.                   (* file system: path -> UTF-8 content, None = unreadable / not UTF-8 *)

  Definition pstate := list (str * file_result).

  Fixpoint put {V} (k : str) (v : V) (l : list (str * V)) : list (str * V) :=
    match l with
    | [] => [(k, v)]
    | (k', v') :: l' => if str_eqb k k' then (k, v) :: l' else (k', v') :: put k v l'
    end.
  Definition del {V} (k : str) (l : list (str * V)) : list (str * V) :=
    filter (fun kv => negb (str_eqb k (fst kv))) l.

  Inductive op := OAdd (id content : str) | ORemove (id : str) | OValidate | OAddFile (path : str).

  (* result reported to the caller: add_file's io::Result, validate's map *)
  Inductive reply := RUnit | RIoError | RResults (r : outcome (list file_result)).

  Definition validate_state (s : pstate) : outcome (list file_result) := validate (map snd s).

  Definition step (s : pstate) (o : op) : pstate * reply :=
    match o with
    | OAdd id c => (put id (parse id c) s, RUnit)
    | ORemove id => (del id s, RUnit)
    | OValidate => (s, RResults (validate_state s))
    | OAddFile p => match fs p with
                    | Some c => (put p (parse p c) s, RUnit)
                    | None => (s, RIoError)
                    end
    end.

  Definition run (ops : list op) : pstate := fold_left (fun s o => fst (step s o)) ops [].

  (* ---- the abstract view: which content each id currently has ---- *)
  Definition astate := list (str * str).
  Definition astep (s : astate) (o : op) : astate :=
    match o with
    | OAdd id c => put id c s
    | ORemove id => del id s
    | OValidate => s
    | OAddFile p => match fs p with Some c => put p c s | None => s end
    end.
  Definition arun (ops : list op) : astate := fold_left astep ops [].

  (* a fresh parser holding exactly the surviving (id, content) pairs *)
  Definition fresh (a : astate) : pstate := fold_left (fun s kc => put (fst kc) (parse (fst kc) (snd kc)) s) a [].
  Definition concretise (a : astate) : pstate := map (fun kc => (fst kc, parse (fst kc) (snd kc))) a.
End Parser.
