(* src/javadoc.rs (as repaired: positions are counted in bytes) *)
From AidlV Require Export Lib.Regex Model.Sem Gen.JavadocRe.

Inductive fstate := FIdle | FLineOrElse | FLineOrElseBeforeSlash | FBeforeEndSlash | FInside | FBeforeBeginStar | FBeforeBeginStarStar.

Definition slash : N := 47.
Definition star : N := 42.

(* the backward scan over the text before the construct: returns (start_pos, end_pos) counted in bytes from the end *)
Fixpoint scan (rv : str) (st : fstate) (pos : N) (endp : option N) : option N * option N :=
  match rv with
  | [] => (None, endp)
  | c :: rest =>
      let pos := pos + utf8_len c in
      match st with
      | FIdle =>
          if N.eqb c slash then scan rest FBeforeEndSlash pos endp
          else if negb (N.eqb c 32) && negb (N.eqb c 10) && negb (N.eqb c 13) && negb (N.eqb c 9)
               then scan rest FLineOrElse pos endp
               else scan rest FIdle pos endp
      | FLineOrElse =>
          if N.eqb c slash then scan rest FLineOrElseBeforeSlash pos endp
          else if N.eqb c 10 then (None, endp)
          else scan rest FLineOrElse pos endp
      | FLineOrElseBeforeSlash =>
          if N.eqb c slash then scan rest FIdle pos endp else (None, endp)
      | FBeforeEndSlash =>
          if N.eqb c star then scan rest FInside pos (Some pos) else scan rest FIdle pos endp
      | FInside =>
          if N.eqb c star then scan rest FBeforeBeginStar pos endp else scan rest FInside pos endp
      | FBeforeBeginStar =>
          if N.eqb c star then scan rest FBeforeBeginStarStar pos endp
          else if N.eqb c slash then scan rest FIdle pos endp
          else scan rest FInside pos endp
      | FBeforeBeginStarStar =>
          if N.eqb c slash then (Some (pos - 3), endp) else scan rest FInside pos endp
      end
  end.

(* &input[a..b] with byte offsets: None = panic (not a boundary, out of range, or a > b) *)
Definition slice_bytes (s : str) (a b : N) : option str :=
  match char_index s a O, char_index s b O with
  | Some i, Some j => if Nat.leb i j then Some (firstn (j - i) (skipn i s)) else None
  | _, _ => None
  end.

(* find_content_string: Some None = no doc comment; None = panic *)
Definition find_content_string (input : str) : option (option str) :=
  match scan (rev input) FIdle 0 None with
  | (Some sp, Some ep) =>
      let len := byte_len input in
      match slice_bytes input (len - sp) (len - ep) with
      | Some s => Some (Some s)
      | None => None
      end
  | _ => Some None
  end.

(* the three regular expressions and the trim set are regenerated from src/javadoc.rs (Gen/JavadocRe.v):
   "\r?\n[ \t*]*\r?\n" (split), "[ \t\r\n*]*\n[ \t\r\n*]*" (-> one space), "([^\n])[ \t]*@" (-> "${1}\n@") *)
Definition re_para : re := gen_re_para.
Definition re_join : re := gen_re_join.
Definition re_tag : re := gen_re_tag.

Definition is_noise (c : N) : bool := in_class gen_trim_class c.
Fixpoint drop_while (f : N -> bool) (s : str) : str := match s with c :: s' => if f c then drop_while f s' else s | [] => [] end.
Definition trim_noise (s : str) : str := rev (drop_while is_noise (rev (drop_while is_noise s))).

Definition parse_javadoc (s : str) : str :=
  let lines := split_re re_para s in
  let lines := map (fun l => replace_all re_join (fun _ => [32]) (trim_noise l)) lines in
  let lines := map (replace_all re_tag (fun m => match m with c :: _ => [c; 10; 64] | [] => [] end)) lines in
  join_with [10] lines.

(* get_javadoc(input, pos): None = panic *)
Definition get_javadoc (src : str) (pos : N) : option (option str) :=
  match char_index src pos O with
  | Some i =>
      match find_content_string (firstn i src) with
      | Some o => Some (option_map parse_javadoc o)
      | None => None
      end
  | None => None
  end.
