(* The 17 type categories that the validation tables distinguish *)
From AidlV Require Export Model.Ast.

Inductive category :=
| CPrimitive | CVoid | CArray | CMap | CList | CString | CCharSequence
| CIBinder | CFileDescriptor | CParcelFileDescriptor | CParcelableHolder
| CInterface | CParcelable | CEnum | CForward | CUnknownImport | CUnresolved.

Definition all_categories : list category :=
  [CPrimitive; CVoid; CArray; CMap; CList; CString; CCharSequence;
   CIBinder; CFileDescriptor; CParcelFileDescriptor; CParcelableHolder;
   CInterface; CParcelable; CEnum; CForward; CUnknownImport; CUnresolved].

Lemma all_categories_complete c : In c all_categories.
Proof. destruct c; cbn; tauto. Qed.

Definition cat (k : tkind) : category :=
  match k with
  | KPrimitive => CPrimitive | KVoid => CVoid | KArray => CArray | KMap => CMap | KList => CList
  | KString => CString | KCharSequence => CCharSequence
  | KAndroid AIBinder => CIBinder | KAndroid AFileDescriptor => CFileDescriptor
  | KAndroid AParcelFileDescriptor => CParcelFileDescriptor | KAndroid AParcelableHolder => CParcelableHolder
  | KResolved _ RInterface => CInterface | KResolved _ RParcelable => CParcelable
  | KResolved _ REnum => CEnum | KResolved _ RForward => CForward
  | KResolved _ RUnknownImport => CUnknownImport
  | KUnresolved => CUnresolved
  end.

(* RequirementForArgDirection (the &'static str payload only feeds the hint text) *)
Inductive requirement := ReqRequired | ReqInOrNone | ReqInOrInout | ReqNever | ReqNone.

(* check_array_element: ok / "invalid element" / "multi-dimensional" *)
Inductive array_verdict := AOk | ABad | AMulti.
