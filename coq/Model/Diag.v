(* src/diagnostic.rs: the wording of "expected ..." (expected_token_str) *)
From AidlV Require Export Model.Ast.

Fixpoint join_with (sep : str) (l : list str) : str :=
  match l with
  | [] => []
  | [x] => x
  | x :: l' => x ++ sep ++ join_with sep l'
  end.

(* which elements of v are interpolated into the message, in order: v[0..len-2] and v[len-1] when len >= 3 *)
Definition fmt_names (v : list str) : list str :=
  match v with
  | [] => []
  | [a] => [a]
  | [a; b] => [a; b]
  | _ => firstn (length v - 2) v ++ [last v []]
  end.

Definition expected_token_str (v : list str) : str :=
  match v with
  | [] => []
  | [a] => lit "Expected " ++ a
  | [a; b] => lit "Expected " ++ a ++ lit " or " ++ b
  | _ => lit "Expected one of " ++ join_with (lit ", ") (firstn (length v - 2) v) ++ lit " or " ++ last v []
  end.

(* ---- reading the names back out of a message (used on the implementation's real messages) ---- *)
Fixpoint strip_prefix (p s : str) : option str :=
  match p, s with
  | [], _ => Some s
  | x :: p', y :: s' => if N.eqb x y then strip_prefix p' s' else None
  | _, [] => None
  end.

(* split s at every occurrence of sep (non-empty) *)
Fixpoint split_on_aux (fuel : nat) (sep s cur : str) : list str :=
  match fuel with
  | O => [rev cur ++ s]
  | S fuel' =>
      match s with
      | [] => [rev cur]
      | c :: s' =>
          match strip_prefix sep s with
          | Some rest => rev cur :: split_on_aux fuel' sep rest []
          | None => split_on_aux fuel' sep s' (c :: cur)
          end
      end
  end.
Definition split_on (sep s : str) : list str := split_on_aux (S (length s)) sep s [].

(* the part of the message after the last newline (the "Expected ..." line) *)
Definition last_line (s : str) : str := last (split_on [10] s) [].

Definition names_in (msg : str) : list str :=
  let l := last_line msg in
  match strip_prefix (lit "Expected one of ") l with
  | Some rest =>
      match rev (split_on (lit " or ") rest) with
      | lastn :: before => split_on (lit ", ") (join_with (lit " or ") (rev before)) ++ [lastn]
      | [] => []
      end
  | None =>
      match strip_prefix (lit "Expected ") l with
      | Some rest => split_on (lit " or ") rest
      | None => []
      end
  end.

Fixpoint remove_nth {A} (n : nat) (l : list A) : list A :=
  match n, l with
  | _, [] => []
  | O, _ :: l' => l'
  | S n', x :: l' => x :: remove_nth n' l'
  end.
