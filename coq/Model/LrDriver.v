(* lalrpop_util::state_machine::Parser (0.19.8) over the regenerated tables, with the lexer pulled lazily,
   and Parser::add_content around it. *)
From Coq Require Import ZArith.
From AidlV Require Export Model.Lexer Model.Wrappers Gen.LrTables Gen.ParseActions.

(* ---- table access ---- *)
Definition action_at (state : N) (col : nat) : Z :=
  nth col (nth (N.to_nat state) gen_action_rows []) 0%Z.
Definition eof_action_at (state : N) : Z := nth (N.to_nat state) gen_eof_action 0%Z.
Definition error_action_at (state : N) : Z := action_at state (gen_ncols - 1).

Definition as_shift (a : Z) : option N := if Z.ltb 0 a then Some (Z.to_N (a - 1)) else None.
Definition as_reduce (a : Z) : option N := if Z.ltb a 0 then Some (Z.to_N (- (a + 1))) else None.

(* __expected_tokens *)
Definition expected_tokens (state : N) : list str :=
  (fix go (names : list string) (col : nat) : list str :=
     match names with
     | [] => []
     | n :: names' => (if Z.eqb (action_at state col) 0 then [] else [lit n]) ++ go names' (S col)
     end) gen_terminals O.

(* ---- parser state ---- *)
Record pst := PSt {
  ps_states : list N;          (* top first *)
  ps_syms : list triple;       (* top first *)
  ps_last : N;                 (* last_location *)
  ps_rest : str; ps_off : N;   (* the lexer: unread text and its offset *)
  ps_diags : list diag }.

Inductive outcome3 := Done (v : sem) | Failed (e : perr) | Panicked | OutOfFuel.

Definition top_state (p : pst) : N := hd 0 (ps_states p).

Definition unrecognized (p : pst) (tok : option (N * str * N)) : perr :=
  match tok with
  | Some (s, t, e) => EUnrecognizedToken s t e (expected_tokens (top_state p))
  | None => EUnrecognizedEOF (ps_last p) (expected_tokens (top_state p))
  end.

Inductive next_token :=
| Found (p : pst) (s : N) (text : str) (e : N) (col : nat)
| AtEof (p : pst)
| Stop (p : pst) (r : outcome3).

Definition next_tok (p : pst) : next_token :=
  match lex1 (ps_rest p) (ps_off p) with
  | LEof => AtEof (PSt (ps_states p) (ps_syms p) (ps_last p) [] (ps_off p) (ps_diags p))
  | LInvalid loc => Stop p (Failed (EInvalidToken loc))
  | LTok s idx text e rest =>
      let p' := PSt (ps_states p) (ps_syms p) e rest e (ps_diags p) in
      match gen_token_to_integer idx with
      | Some col => Found p' s text e (N.to_nat col)
      | None => Stop p' (Failed (unrecognized p' (Some (s, text, e))))
      end
  end.

(* the action functions: the regenerated table through the wrapper evaluator *)
Definition action_fuel : nat := length gen_actions.
Definition gen_action (n : N) : afun := eval_action gen_actions action_fuel n.

(* ---- reduce ---- *)
Definition production (idx : N) : nat * N * N * N := nth (N.to_nat idx) gen_productions (O, 0, 0, 3).

Inductive reduced := RCont (p : pst) | RAccept (p : pst) (v : sem) | RPanic (p : pst).

Definition reduce (cx : ctx) (p : pst) (idx : N) (lookahead_start : option N) : reduced :=
  let '(k, nt, act, kind) := production idx in
  let popped := rev (firstn k (ps_syms p)) in
  let syms' := skipn k (ps_syms p) in
  let start := match popped with
               | t :: _ => tstart t
               | [] => match lookahead_start with
                       | Some l => l
                       | None => match ps_syms p with t :: _ => tend t | [] => 0 end
                       end
               end in
  let stop := match popped with [] => start | _ => tend (last popped (0, VBad, 0)) end in
  let '(v, ds) := gen_action act cx start stop popped in
  let p1 := PSt (ps_states p) syms' (ps_last p) (ps_rest p) (ps_off p) (ps_diags p ++ ds) in
  match v with
  | VPanic => RPanic p1
  | _ =>
      if N.eqb kind 2 then RAccept p1 v
      else
        let states' := skipn k (ps_states p) in
        let next := gen_goto (hd 0 states') nt in
        RCont (PSt (next :: states') ((start, v, stop) :: syms') (ps_last p) (ps_rest p) (ps_off p) (ps_diags p ++ ds))
  end.

(* ---- accepts: simulate the reductions the lookahead would trigger ---- *)
Fixpoint accepts (fuel : nat) (states : list N) (col : option nat) : bool :=
  match fuel with
  | O => false
  | S fuel' =>
      let top := hd 0 states in
      let a := match col with None => eof_action_at top | Some c => action_at top c end in
      if Z.eqb a 0 then false
      else match as_reduce a with
           | Some r =>
               let '(k, nt, _, kind) := production r in
               if N.eqb kind 2 then true
               else let states' := skipn k states in
                    accepts fuel' (gen_goto (hd 0 states') nt :: states') col
           | None => true
           end
  end.

Definition accept_fuel : nat := 4096.

(* ---- error recovery ---- *)
(* the reductions on the error column *)
Fixpoint error_reductions (cx : ctx) (fuel : nat) (p : pst) (la_start : option N) : reduced :=
  match fuel with
  | O => RCont p
  | S fuel' =>
      match as_reduce (error_action_at (top_state p)) with
      | Some r => match reduce cx p r la_start with
                  | RCont p' => error_reductions cx fuel' p' la_start
                  | other => other
                  end
      | None => RCont p
      end
  end.

(* scan the state stack top-down for a state that shifts `!` and accepts the lookahead;
   returns the index `top` counted from the bottom *)
Fixpoint find_recover (states : list N) (col : option nat) : option nat :=
  match states with
  | [] => None
  | st :: below =>
      match as_shift (error_action_at st) with
      | Some es => if accepts accept_fuel (es :: states) col then Some (length below) else find_recover below col
      | None => find_recover below col
      end
  end.

Inductive recovered :=
| RecFound (p : pst) (s : N) (text : str) (e : N) (col : nat)
| RecEof (p : pst)
| RecStop (p : pst) (r : outcome3).

(* the find_state loop: drop lookaheads until some state on the stack can take `!` followed by the lookahead *)
Fixpoint recover_loop (fuel : nat) (p : pst) (error : perr) (la : option (N * str * N * nat))
         (dropped : list (N * str * N)) (states_len : nat) : recovered :=
  match fuel with
  | O => RecStop p OutOfFuel
  | S fuel' =>
      match find_recover (ps_states p) (option_map (fun x => snd x) la) with
      | Some top =>
          (* symbols as a bottom-first list for the index arithmetic of the original *)
          let syms_bf := rev (ps_syms p) in
          let start :=
            match nth_error syms_bf top with
            | Some t => tstart t
            | None => match dropped with
                      | d :: _ => fst (fst d)
                      | [] => if Nat.ltb 0 top then match nth_error syms_bf (top - 1) with Some t => tend t | None => 0 end else 0
                      end
            end in
          let stop :=
            match rev dropped with
            | d :: _ => snd d
            | [] => if Nat.ltb top (states_len - 1)
                    then match ps_syms p with t :: _ => tend t | [] => 0 end
                    else match la with Some (s, _, _, _) => s | None => start end
            end in
          let states_bf := rev (ps_states p) in
          let states' := rev (firstn (top + 1) states_bf) in
          let syms' := rev (firstn top syms_bf) in
          match as_shift (error_action_at (hd 0 states')) with
          | Some es =>
              let p' := PSt (es :: states') ((start, VErr error, stop) :: syms') (ps_last p) (ps_rest p) (ps_off p) (ps_diags p) in
              match la with
              | Some (s, t, e, col) => RecFound p' s t e col
              | None => RecEof p'
              end
          | None => RecStop p Panicked
          end
      | None =>
          match la with
          | None => RecStop p (Failed error)
          | Some (s, t, e, _) =>
              let dropped' := dropped ++ [(s, t, e)] in
              match next_tok p with
              | Found p' s' t' e' col' => recover_loop fuel' p' error (Some (s', t', e', col')) dropped' states_len
              | AtEof p' => recover_loop fuel' p' error None dropped' states_len
              | Stop p' r => RecStop p' r
              end
          end
      end
  end.

Definition reduce_fuel : nat := 100000.

Definition error_recovery (cx : ctx) (p : pst) (la : option (N * str * N * nat)) : recovered :=
  let error := unrecognized p (option_map (fun x => let '(s, t, e, _) := x in (s, t, e)) la) in
  match error_reductions cx reduce_fuel p (option_map (fun x => let '(s, _, _, _) := x in s) la) with
  | RAccept p' v => RecStop p' (Done v)
  | RPanic p' => RecStop p' Panicked
  | RCont p' => recover_loop (S (S (length (ps_rest p')))) p' error la [] (length (ps_states p'))
  end.

(* ---- the main loops ---- *)
Fixpoint parse_eof (cx : ctx) (fuel : nat) (p : pst) : pst * outcome3 :=
  match fuel with
  | O => (p, OutOfFuel)
  | S fuel' =>
      match as_reduce (eof_action_at (top_state p)) with
      | Some r =>
          match reduce cx p r None with
          | RCont p' => parse_eof cx fuel' p'
          | RAccept p' v => (p', Done v)
          | RPanic p' => (p', Panicked)
          end
      | None =>
          match error_recovery cx p None with
          | RecFound p' _ _ _ _ => (p', Panicked)          (* panic!("cannot find token at EOF") *)
          | RecStop p' r => (p', r)
          | RecEof p' => parse_eof cx fuel' p'
          end
      end
  end.

(* the inner loop for one lookahead: reduce / recover until it is shifted *)
Fixpoint with_lookahead (cx : ctx) (fuel : nat) (p : pst) (s : N) (text : str) (e : N) (col : nat)
  : pst * option outcome3 * bool (* true: lookahead consumed, continue with the next token; false: go to parse_eof *) :=
  match fuel with
  | O => (p, Some OutOfFuel, false)
  | S fuel' =>
      let a := action_at (top_state p) col in
      match as_shift a with
      | Some target =>
          (PSt (target :: ps_states p) ((s, VTok text, e) :: ps_syms p) (ps_last p) (ps_rest p) (ps_off p) (ps_diags p), None, true)
      | None =>
          match as_reduce a with
          | Some r =>
              match reduce cx p r (Some s) with
              | RCont p' => with_lookahead cx fuel' p' s text e col
              | RAccept p' _ => (p', Some (Failed (EExtraToken s text e)), false)
              | RPanic p' => (p', Some Panicked, false)
              end
          | None =>
              match error_recovery cx p (Some (s, text, e, col)) with
              | RecFound p' s' t' e' col' => with_lookahead cx fuel' p' s' t' e' col'
              | RecEof p' => (p', None, false)
              | RecStop p' r => (p', Some r, false)
              end
          end
      end
  end.

Fixpoint parse_loop (cx : ctx) (fuel : nat) (p : pst) : pst * outcome3 :=
  match fuel with
  | O => (p, OutOfFuel)
  | S fuel' =>
      match next_tok p with
      | AtEof p' => parse_eof cx reduce_fuel p'
      | Stop p' r => (p', r)
      | Found p' s text e col =>
          match with_lookahead cx reduce_fuel p' s text e col with
          | (p'', Some r, _) => (p'', r)
          | (p'', None, true) => parse_loop cx fuel' p''
          | (p'', None, false) => parse_eof cx reduce_fuel p''
          end
      end
  end.

Definition parse (cx : ctx) : pst * outcome3 :=
  parse_loop cx (S (length (cx_src cx))) (PSt [0] [] 0 (cx_src cx) 0 []).

(* ---- Parser::add_content ---- *)
Inductive added := Added (fr : file_result) | AddPanic | AddFuel | AddBad.

Definition add_content (cx : ctx) (id : str) : added :=
  let '(p, r) := parse cx in
  match r with
  | Done (VOpt None) => Added (FR id None (ps_diags p))
  | Done (VOpt (Some (VAidl a))) => Added (FR id (Some a) (ps_diags p))
  | Done _ => AddBad
  | Failed e =>
      match diag_of_error cx e with
      | Some d => Added (FR id None (ps_diags p ++ [d]))
      | None => AddPanic
      end
  | Panicked => AddPanic
  | OutOfFuel => AddFuel
  end.
