(* the types of the values on the parser's symbol stack (the Rust types of the __Symbol variants and of the
   action functions' parameters), refined for the typing discipline of Proofs/Typing.v, and grammar symbols *)
From AidlV Require Export Lib.Str.

Inductive vty :=
| TTok                 (* &'input str: any token *)
| TTokOf (c : N)       (* a token of terminal column c (refinement used by the analysis, never emitted for Rust types) *)
| TLoc                 (* usize (an @L / @R location) *)
| TString              (* String *)
| TQName               (* a String built by QualifiedName: identifiers joined by dots (refinement used by the analysis) *)
| TErr                 (* ErrorRecovery *)
| TOpt (t : vty)
| TLoud (t : vty)      (* an Option that is None only after an Error diagnostic has been pushed (error recovery at item level) *)
| TVec (t : vty)
| TTuple (l : list vty)
| TAst (name : string) (* ast::<name> *)
| TKV                  (* (String, Option<String>): an annotation parameter *)
| TBot.                (* no value: the element type of an empty vector / of None *)

(* grammar symbols: terminal column, nonterminal index, the error symbol `!` *)
Inductive gsym := ST (c : N) | SNT (n : N) | SErr.

Definition gsym_eqb (a b : gsym) : bool :=
  match a, b with
  | ST x, ST y | SNT x, SNT y => N.eqb x y
  | SErr, SErr => true
  | _, _ => false
  end.
Lemma gsym_eqb_eq a b : gsym_eqb a b = true -> a = b.
Proof. destruct a, b; cbn; intros H; try discriminate; try (apply N.eqb_eq in H; subst); reflexivity. Qed.

Section VtyInd.
  Variable P : vty -> Prop.
  Hypotheses (HTok : P TTok) (HTokOf : forall c, P (TTokOf c)) (HLoc : P TLoc) (HString : P TString) (HQName : P TQName) (HErr : P TErr)
             (HOpt : forall t, P t -> P (TOpt t)) (HLoud : forall t, P t -> P (TLoud t)) (HVec : forall t, P t -> P (TVec t))
             (HTuple : forall l, Forall P l -> P (TTuple l)) (HAst : forall n, P (TAst n)) (HKV : P TKV) (HBot : P TBot).
  Fixpoint vty_ind' (t : vty) : P t :=
    match t with
    | TTok => HTok | TTokOf c => HTokOf c | TLoc => HLoc | TString => HString | TQName => HQName | TErr => HErr
    | TOpt t' => HOpt t' (vty_ind' t') | TLoud t' => HLoud t' (vty_ind' t') | TVec t' => HVec t' (vty_ind' t')
    | TTuple l => HTuple l ((fix go (l : list vty) : Forall P l :=
                               match l with [] => Forall_nil P | x :: l' => Forall_cons x (vty_ind' x) (go l') end) l)
    | TAst n => HAst n | TKV => HKV | TBot => HBot
    end.
End VtyInd.
