(* The library's data types (src/ast.rs, src/diagnostic.rs, src/parser.rs), field for field.
   The shape is cross-checked against the Rust declarations by Gen/AstShape.v. *)
From AidlV Require Export Lib.Str.

Record pos := Pos { p_off : N; p_line : N; p_col : N }.
Record range := Rng { r_start : pos; r_end : pos }.

Inductive rkind := RInterface | RParcelable | REnum | RForward | RUnknownImport.
Inductive akind := AIBinder | AFileDescriptor | AParcelFileDescriptor | AParcelableHolder.

Inductive tkind :=
| KPrimitive | KVoid | KArray | KMap | KList | KString | KCharSequence
| KAndroid (a : akind)
| KResolved (key : str) (k : rkind)
| KUnresolved.

Inductive ty := Ty (name : str) (kind : tkind) (generics : list ty) (sym full : range).

Definition ty_name (t : ty) := let 'Ty n _ _ _ _ := t in n.
Definition ty_kind (t : ty) := let 'Ty _ k _ _ _ := t in k.
Definition ty_generics (t : ty) := let 'Ty _ _ g _ _ := t in g.
Definition ty_sym (t : ty) := let 'Ty _ _ _ s _ := t in s.
Definition ty_full (t : ty) := let 'Ty _ _ _ _ f := t in f.

Inductive direction := DIn (r : range) | DOut (r : range) | DInOut (r : range) | DUnspecified.

(* key_values: a HashMap in Rust; here an association list sorted by key (canonical form) *)
Record annotation := Annot { an_name : str; an_kvs : list (str * option str) }.

Record arg := Arg {
  a_dir : direction; a_name : option str; a_ty : ty; a_annots : list annotation;
  a_doc : option str; a_sym : range; a_full : range }.

Record method := Method {
  m_oneway : bool; m_name : str; m_ret : ty; m_args : list arg; m_annots : list annotation;
  m_code : option N; m_doc : option str; m_sym : range; m_full : range;
  m_code_range : range; m_oneway_range : range }.

Record const := Const {
  c_name : str; c_ty : ty; c_value : str; c_annots : list annotation; c_doc : option str;
  c_sym : range; c_full : range }.

Record field := Field {
  f_name : str; f_ty : ty; f_value : option str; f_annots : list annotation; f_doc : option str;
  f_sym : range; f_full : range }.

Record enum_elem := EnumElem {
  ee_name : str; ee_value : option str; ee_doc : option str; ee_sym : range; ee_full : range }.

Inductive iface_elem := IEConst (c : const) | IEMethod (m : method).
Inductive parc_elem := PEConst (c : const) | PEField (f : field).

Record interface := Interface {
  i_oneway : bool; i_name : str; i_elems : list iface_elem; i_annots : list annotation;
  i_doc : option str; i_full : range; i_sym : range }.

Record parcelable := Parcelable {
  pc_name : str; pc_elems : list parc_elem; pc_annots : list annotation;
  pc_doc : option str; pc_full : range; pc_sym : range }.

Record enum := Enum {
  e_name : str; e_elems : list enum_elem; e_annots : list annotation;
  e_doc : option str; e_full : range; e_sym : range }.

Inductive item := ItInterface (i : interface) | ItParcelable (p : parcelable) | ItEnum (e : enum).

Record package := Package { pk_name : str; pk_sym : range; pk_full : range }.
Record import := Import { im_path : str; im_name : str; im_sym : range; im_full : range }.

Record aidl := Aidl {
  ai_package : package; ai_imports : list import; ai_declared : list import; ai_item : item }.

Inductive dkind := DError | DWarning.

(* message: modelled only for syntax-stage diagnostics (C20); [] elsewhere and never compared there.
   ctx = context_message, related = ranges of related_infos *)
Record diag := Diag {
  d_kind : dkind; d_range : range; d_ctx : option str; d_related : list range; d_msg : str }.

Record file_result := FR { fr_id : str; fr_ast : option aidl; fr_diags : list diag }.

(* ---- accessors of ast.rs ---- *)

Definition item_name (it : item) : str :=
  match it with ItInterface i => i_name i | ItParcelable p => pc_name p | ItEnum e => e_name e end.

Definition item_kind (it : item) : rkind :=
  match it with ItInterface _ => RInterface | ItParcelable _ => RParcelable | ItEnum _ => REnum end.

Definition item_sym (it : item) : range :=
  match it with ItInterface i => i_sym i | ItParcelable p => pc_sym p | ItEnum e => e_sym e end.

Definition item_full (it : item) : range :=
  match it with ItInterface i => i_full i | ItParcelable p => pc_full p | ItEnum e => e_full e end.

(* Aidl::get_key = format!("{}.{}", package.name, item.get_name()) *)
Definition get_key (a : aidl) : str := pk_name (ai_package a) ++ dotc :: item_name (ai_item a).

(* Import::get_qualified_name *)
Definition import_qname (i : import) : str :=
  if is_empty (im_path i) then im_name i else im_path i ++ dotc :: im_name i.

(* ---- boolean equalities used by the correspondence (sound: see Proofs/AstEq.v) ---- *)

Definition pos_eqb (a b : pos) : bool :=
  N.eqb (p_off a) (p_off b) && N.eqb (p_line a) (p_line b) && N.eqb (p_col a) (p_col b).
Definition range_eqb (a b : range) : bool :=
  pos_eqb (r_start a) (r_start b) && pos_eqb (r_end a) (r_end b).

Definition rkind_eqb (a b : rkind) : bool :=
  match a, b with
  | RInterface, RInterface | RParcelable, RParcelable | REnum, REnum
  | RForward, RForward | RUnknownImport, RUnknownImport => true
  | _, _ => false
  end.
Definition akind_eqb (a b : akind) : bool :=
  match a, b with
  | AIBinder, AIBinder | AFileDescriptor, AFileDescriptor
  | AParcelFileDescriptor, AParcelFileDescriptor | AParcelableHolder, AParcelableHolder => true
  | _, _ => false
  end.
Definition tkind_eqb (a b : tkind) : bool :=
  match a, b with
  | KPrimitive, KPrimitive | KVoid, KVoid | KArray, KArray | KMap, KMap | KList, KList
  | KString, KString | KCharSequence, KCharSequence | KUnresolved, KUnresolved => true
  | KAndroid x, KAndroid y => akind_eqb x y
  | KResolved k1 r1, KResolved k2 r2 => str_eqb k1 k2 && rkind_eqb r1 r2
  | _, _ => false
  end.

Section ListEq.
  Context {A : Type} (eqb : A -> A -> bool).
  Fixpoint list_eqb (l1 l2 : list A) : bool :=
    match l1, l2 with
    | [], [] => true
    | x :: l1', y :: l2' => eqb x y && list_eqb l1' l2'
    | _, _ => false
    end.
  Definition option_eqb (o1 o2 : option A) : bool :=
    match o1, o2 with
    | None, None => true
    | Some x, Some y => eqb x y
    | _, _ => false
    end.
End ListEq.

Fixpoint ty_eqb (a b : ty) {struct a} : bool :=
  let 'Ty n1 k1 g1 s1 f1 := a in
  let 'Ty n2 k2 g2 s2 f2 := b in
  str_eqb n1 n2 && tkind_eqb k1 k2 && range_eqb s1 s2 && range_eqb f1 f2 &&
  (fix go (l1 l2 : list ty) : bool :=
     match l1, l2 with
     | [], [] => true
     | x :: l1', y :: l2' => ty_eqb x y && go l1' l2'
     | _, _ => false
     end) g1 g2.

Definition direction_eqb (a b : direction) : bool :=
  match a, b with
  | DIn r1, DIn r2 | DOut r1, DOut r2 | DInOut r1, DInOut r2 => range_eqb r1 r2
  | DUnspecified, DUnspecified => true
  | _, _ => false
  end.

Definition ostr_eqb := option_eqb str_eqb.
Definition kv_eqb (a b : str * option str) : bool := str_eqb (fst a) (fst b) && ostr_eqb (snd a) (snd b).
Definition annot_eqb (a b : annotation) : bool :=
  str_eqb (an_name a) (an_name b) && list_eqb kv_eqb (an_kvs a) (an_kvs b).
Definition annots_eqb := list_eqb annot_eqb.

Definition arg_eqb (a b : arg) : bool :=
  direction_eqb (a_dir a) (a_dir b) && ostr_eqb (a_name a) (a_name b) && ty_eqb (a_ty a) (a_ty b) &&
  annots_eqb (a_annots a) (a_annots b) && ostr_eqb (a_doc a) (a_doc b) &&
  range_eqb (a_sym a) (a_sym b) && range_eqb (a_full a) (a_full b).

Definition method_eqb (a b : method) : bool :=
  Bool.eqb (m_oneway a) (m_oneway b) && str_eqb (m_name a) (m_name b) && ty_eqb (m_ret a) (m_ret b) &&
  list_eqb arg_eqb (m_args a) (m_args b) && annots_eqb (m_annots a) (m_annots b) &&
  option_eqb N.eqb (m_code a) (m_code b) && ostr_eqb (m_doc a) (m_doc b) &&
  range_eqb (m_sym a) (m_sym b) && range_eqb (m_full a) (m_full b) &&
  range_eqb (m_code_range a) (m_code_range b) && range_eqb (m_oneway_range a) (m_oneway_range b).

Definition const_eqb (a b : const) : bool :=
  str_eqb (c_name a) (c_name b) && ty_eqb (c_ty a) (c_ty b) && str_eqb (c_value a) (c_value b) &&
  annots_eqb (c_annots a) (c_annots b) && ostr_eqb (c_doc a) (c_doc b) &&
  range_eqb (c_sym a) (c_sym b) && range_eqb (c_full a) (c_full b).

Definition field_eqb (a b : field) : bool :=
  str_eqb (f_name a) (f_name b) && ty_eqb (f_ty a) (f_ty b) && ostr_eqb (f_value a) (f_value b) &&
  annots_eqb (f_annots a) (f_annots b) && ostr_eqb (f_doc a) (f_doc b) &&
  range_eqb (f_sym a) (f_sym b) && range_eqb (f_full a) (f_full b).

Definition enum_elem_eqb (a b : enum_elem) : bool :=
  str_eqb (ee_name a) (ee_name b) && ostr_eqb (ee_value a) (ee_value b) && ostr_eqb (ee_doc a) (ee_doc b) &&
  range_eqb (ee_sym a) (ee_sym b) && range_eqb (ee_full a) (ee_full b).

Definition iface_elem_eqb (a b : iface_elem) : bool :=
  match a, b with
  | IEConst x, IEConst y => const_eqb x y
  | IEMethod x, IEMethod y => method_eqb x y
  | _, _ => false
  end.
Definition parc_elem_eqb (a b : parc_elem) : bool :=
  match a, b with
  | PEConst x, PEConst y => const_eqb x y
  | PEField x, PEField y => field_eqb x y
  | _, _ => false
  end.

Definition item_eqb (a b : item) : bool :=
  match a, b with
  | ItInterface x, ItInterface y =>
      Bool.eqb (i_oneway x) (i_oneway y) && str_eqb (i_name x) (i_name y) &&
      list_eqb iface_elem_eqb (i_elems x) (i_elems y) && annots_eqb (i_annots x) (i_annots y) &&
      ostr_eqb (i_doc x) (i_doc y) && range_eqb (i_full x) (i_full y) && range_eqb (i_sym x) (i_sym y)
  | ItParcelable x, ItParcelable y =>
      str_eqb (pc_name x) (pc_name y) &&
      list_eqb parc_elem_eqb (pc_elems x) (pc_elems y) && annots_eqb (pc_annots x) (pc_annots y) &&
      ostr_eqb (pc_doc x) (pc_doc y) && range_eqb (pc_full x) (pc_full y) && range_eqb (pc_sym x) (pc_sym y)
  | ItEnum x, ItEnum y =>
      str_eqb (e_name x) (e_name y) &&
      list_eqb enum_elem_eqb (e_elems x) (e_elems y) && annots_eqb (e_annots x) (e_annots y) &&
      ostr_eqb (e_doc x) (e_doc y) && range_eqb (e_full x) (e_full y) && range_eqb (e_sym x) (e_sym y)
  | _, _ => false
  end.

Definition package_eqb (a b : package) : bool :=
  str_eqb (pk_name a) (pk_name b) && range_eqb (pk_sym a) (pk_sym b) && range_eqb (pk_full a) (pk_full b).
Definition import_eqb (a b : import) : bool :=
  str_eqb (im_path a) (im_path b) && str_eqb (im_name a) (im_name b) &&
  range_eqb (im_sym a) (im_sym b) && range_eqb (im_full a) (im_full b).

Definition aidl_eqb (a b : aidl) : bool :=
  package_eqb (ai_package a) (ai_package b) && list_eqb import_eqb (ai_imports a) (ai_imports b) &&
  list_eqb import_eqb (ai_declared a) (ai_declared b) && item_eqb (ai_item a) (ai_item b).

Definition dkind_eqb (a b : dkind) : bool :=
  match a, b with DError, DError | DWarning, DWarning => true | _, _ => false end.

(* Diagnostics are compared without the message text: kind, range, context label, related ranges *)
Definition diag_eqb (a b : diag) : bool :=
  dkind_eqb (d_kind a) (d_kind b) && range_eqb (d_range a) (d_range b) &&
  ostr_eqb (d_ctx a) (d_ctx b) && list_eqb range_eqb (d_related a) (d_related b).

(* ... and with it, for syntax-stage diagnostics *)
Definition diag_eqb_msg (a b : diag) : bool := diag_eqb a b && str_eqb (d_msg a) (d_msg b).

Definition fr_eqb (a b : file_result) : bool :=
  str_eqb (fr_id a) (fr_id b) && option_eqb aidl_eqb (fr_ast a) (fr_ast b) &&
  list_eqb diag_eqb (fr_diags a) (fr_diags b).

(* ---- induction principle for the nested type tree ---- *)
Section TyInd.
  Variable P : ty -> Prop.
  Hypothesis H : forall n k g s f, Forall P g -> P (Ty n k g s f).
  Fixpoint ty_ind' (t : ty) : P t :=
    let 'Ty n k g s f := t in
    H n k g s f
      ((fix go (l : list ty) : Forall P l :=
          match l with
          | [] => Forall_nil P
          | x :: l' => Forall_cons x (ty_ind' x) (go l')
          end) g).
End TyInd.
