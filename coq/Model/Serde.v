(* #[derive(Serialize, Deserialize)] on the types of src/ast.rs, driven by the regenerated attribute tables
   (Gen/SerdeSpec.v).  The model stops at serde's data model; the RON text layer is not modelled. *)
From AidlV Require Export Model.SerdeBase Gen.SerdeSpec.

(* the attribute record of a Rust field, looked up once (closed terms: computed at definition time) *)
Notation spec l f := (ltac:(let x := eval vm_compute in (spec_of l f) in exact x)) (only parsing).
Notation vname l v := (ltac:(let x := eval vm_compute in (lit (vname_of l v)) in exact x)) (only parsing).

(* ---------------- Position / Range ---------------- *)
Definition sp_pos_offset := spec fs_Position "offset".
Definition sp_pos_line_col := spec fs_Position "line_col".
Definition cd_line_col : codec (N * N) :=
  Codec _ (fun p => VTuple [VNat (fst p); VNat (snd p)])
        (fun v => match v with VTuple [VNat a; VNat b] => Some (a, b) | _ => None end)
        (fun _ _ => false) (fun _ => None).
Definition ser_pos (p : pos) : sval :=
  ser_struct [mkf sp_pos_offset cd_nat (p_off p); mkf sp_pos_line_col cd_line_col (p_line p, p_col p)].
Definition de_pos (v : sval) : option pos :=
  match v with
  | VStruct f => do o <- getf sp_pos_offset cd_nat f; do lc <- getf sp_pos_line_col cd_line_col f; Some (Pos o (fst lc) (snd lc))
  | _ => None
  end.
Definition cd_pos : codec pos := Codec _ ser_pos de_pos (fun _ _ => false) (fun _ => None).

Definition sp_range_start := spec fs_Range "start".
Definition sp_range_end := spec fs_Range "end".
Definition ser_range (r : range) : sval :=
  ser_struct [mkf sp_range_start cd_pos (r_start r); mkf sp_range_end cd_pos (r_end r)].
Definition de_range (v : sval) : option range :=
  match v with
  | VStruct f => do s <- getf sp_range_start cd_pos f; do e <- getf sp_range_end cd_pos f; Some (Rng s e)
  | _ => None
  end.
Definition cd_range : codec range := Codec _ ser_range de_range (fun _ _ => false) (fun _ => None).

(* ---------------- enums without recursive payload ---------------- *)
Definition vn_rk_interface := vname vs_ResolvedItemKind "Interface".
Definition vn_rk_parcelable := vname vs_ResolvedItemKind "Parcelable".
Definition vn_rk_enum := vname vs_ResolvedItemKind "Enum".
Definition vn_rk_forward := vname vs_ResolvedItemKind "ForwardDeclaredParcelable".
Definition vn_rk_unknown := vname vs_ResolvedItemKind "UnknownImport".
Definition ser_rkind (k : rkind) : sval :=
  VVariant (match k with RInterface => vn_rk_interface | RParcelable => vn_rk_parcelable | REnum => vn_rk_enum
                    | RForward => vn_rk_forward | RUnknownImport => vn_rk_unknown end) [].
Definition de_rkind (v : sval) : option rkind :=
  match v with
  | VVariant n [] =>
      if str_eqb n vn_rk_interface then Some RInterface else if str_eqb n vn_rk_parcelable then Some RParcelable
      else if str_eqb n vn_rk_enum then Some REnum else if str_eqb n vn_rk_forward then Some RForward
      else if str_eqb n vn_rk_unknown then Some RUnknownImport else None
  | _ => None
  end.

Definition vn_ak_ibinder := vname vs_AndroidTypeKind "IBinder".
Definition vn_ak_fd := vname vs_AndroidTypeKind "FileDescriptor".
Definition vn_ak_pfd := vname vs_AndroidTypeKind "ParcelFileDescriptor".
Definition vn_ak_holder := vname vs_AndroidTypeKind "ParcelableHolder".
Definition ser_akind (k : akind) : sval :=
  VVariant (match k with AIBinder => vn_ak_ibinder | AFileDescriptor => vn_ak_fd | AParcelFileDescriptor => vn_ak_pfd
                    | AParcelableHolder => vn_ak_holder end) [].
Definition de_akind (v : sval) : option akind :=
  match v with
  | VVariant n [] =>
      if str_eqb n vn_ak_ibinder then Some AIBinder else if str_eqb n vn_ak_fd then Some AFileDescriptor
      else if str_eqb n vn_ak_pfd then Some AParcelFileDescriptor else if str_eqb n vn_ak_holder then Some AParcelableHolder
      else None
  | _ => None
  end.

Definition vn_tk_primitive := vname vs_TypeKind "Primitive".
Definition vn_tk_void := vname vs_TypeKind "Void".
Definition vn_tk_array := vname vs_TypeKind "Array".
Definition vn_tk_map := vname vs_TypeKind "Map".
Definition vn_tk_list := vname vs_TypeKind "List".
Definition vn_tk_string := vname vs_TypeKind "String".
Definition vn_tk_charseq := vname vs_TypeKind "CharSequence".
Definition vn_tk_android := vname vs_TypeKind "AndroidType".
Definition vn_tk_resolved := vname vs_TypeKind "ResolvedItem".
Definition vn_tk_unresolved := vname vs_TypeKind "Unresolved".
Definition ser_tkind (k : tkind) : sval :=
  match k with
  | KPrimitive => VVariant vn_tk_primitive [] | KVoid => VVariant vn_tk_void [] | KArray => VVariant vn_tk_array []
  | KMap => VVariant vn_tk_map [] | KList => VVariant vn_tk_list [] | KString => VVariant vn_tk_string []
  | KCharSequence => VVariant vn_tk_charseq []
  | KAndroid a => VVariant vn_tk_android [ser_akind a]
  | KResolved key k => VVariant vn_tk_resolved [VStr key; ser_rkind k]
  | KUnresolved => VVariant vn_tk_unresolved []
  end.
Definition de_tkind (v : sval) : option tkind :=
  match v with
  | VVariant n p =>
      if str_eqb n vn_tk_primitive then match p with [] => Some KPrimitive | _ => None end
      else if str_eqb n vn_tk_void then match p with [] => Some KVoid | _ => None end
      else if str_eqb n vn_tk_array then match p with [] => Some KArray | _ => None end
      else if str_eqb n vn_tk_map then match p with [] => Some KMap | _ => None end
      else if str_eqb n vn_tk_list then match p with [] => Some KList | _ => None end
      else if str_eqb n vn_tk_string then match p with [] => Some KString | _ => None end
      else if str_eqb n vn_tk_charseq then match p with [] => Some KCharSequence | _ => None end
      else if str_eqb n vn_tk_android then match p with [a] => do a' <- de_akind a; Some (KAndroid a') | _ => None end
      else if str_eqb n vn_tk_resolved then
        match p with [VStr key; k] => do k' <- de_rkind k; Some (KResolved key k') | _ => None end
      else if str_eqb n vn_tk_unresolved then match p with [] => Some KUnresolved | _ => None end
      else None
  | _ => None
  end.
Definition cd_tkind : codec tkind := Codec _ ser_tkind de_tkind (fun _ _ => false) (fun _ => None).

Definition vn_dir_in := vname vs_Direction "In".
Definition vn_dir_out := vname vs_Direction "Out".
Definition vn_dir_inout := vname vs_Direction "InOut".
Definition vn_dir_unspecified := vname vs_Direction "Unspecified".
Definition ser_direction (d : direction) : sval :=
  match d with
  | DIn r => VVariant vn_dir_in [ser_range r] | DOut r => VVariant vn_dir_out [ser_range r]
  | DInOut r => VVariant vn_dir_inout [ser_range r] | DUnspecified => VVariant vn_dir_unspecified []
  end.
Definition de_direction (v : sval) : option direction :=
  match v with
  | VVariant n p =>
      if str_eqb n vn_dir_in then match p with [r] => do r' <- de_range r; Some (DIn r') | _ => None end
      else if str_eqb n vn_dir_out then match p with [r] => do r' <- de_range r; Some (DOut r') | _ => None end
      else if str_eqb n vn_dir_inout then match p with [r] => do r' <- de_range r; Some (DInOut r') | _ => None end
      else if str_eqb n vn_dir_unspecified then match p with [] => Some DUnspecified | _ => None end
      else None
  | _ => None
  end.
(* skip: Direction::is_unspecified; missing with `default`: Default::default() = Unspecified *)
Definition cd_direction : codec direction :=
  Codec _ ser_direction de_direction
        (fun k d => match k, d with SkDirectionIsUnspecified, DUnspecified => true | _, _ => false end)
        (fun d => match d with DfDefault => Some DUnspecified | _ => None end).

(* ---------------- Type (recursive) ---------------- *)
Definition sp_ty_name := spec fs_Type "name".
Definition sp_ty_kind := spec fs_Type "kind".
Definition sp_ty_generics := spec fs_Type "generic_types".
Definition sp_ty_sym := spec fs_Type "symbol_range".
Definition sp_ty_full := spec fs_Type "full_range".

Fixpoint ser_ty (t : ty) : sval :=
  let 'Ty n k g s f := t in
  let gs := (fix go (l : list ty) : list sval := match l with [] => [] | x :: l' => ser_ty x :: go l' end) g in
  ser_struct [mkf sp_ty_name cd_str n; mkf sp_ty_kind cd_tkind k;
              (fs_name sp_ty_generics, VSeq gs, match fs_skip sp_ty_generics with SkVecIsEmpty => is_empty g | _ => false end);
              mkf sp_ty_sym cd_range s; mkf sp_ty_full cd_range f].

(* fuel bounds the nesting depth (the field lookup hides the structural descent from the guard checker) *)
Fixpoint de_ty (fuel : nat) (v : sval) : option ty :=
  match fuel with
  | O => None
  | S fuel' =>
      match v with
      | VStruct f =>
          do n <- getf sp_ty_name cd_str f; do k <- getf sp_ty_kind cd_tkind f;
          do g <- getf sp_ty_generics
                       (Codec (list ty) (fun _ => VNone)
                              (fun v => match v with VSeq l => dec_all (de_ty fuel') l | _ => None end)
                              (fun _ _ => false)
                              (fun d => match d with DfDefault => Some [] | _ => None end)) f;
          do s <- getf sp_ty_sym cd_range f; do fu <- getf sp_ty_full cd_range f;
          Some (Ty n k g s fu)
      | _ => None
      end
  end.

Fixpoint ty_depth (t : ty) : nat :=
  let 'Ty _ _ g _ _ := t in
  S ((fix go (l : list ty) : nat := match l with [] => O | x :: l' => Nat.max (ty_depth x) (go l') end) g).

(* a codec for types with enough fuel for anything up to depth d *)
Definition cd_ty (d : nat) : codec ty := Codec _ ser_ty (de_ty d) (fun _ _ => false) (fun _ => None).

(* ---------------- Annotation ---------------- *)
Definition sp_an_name := spec fs_Annotation "name".
Definition sp_an_kvs := spec fs_Annotation "key_values".
Definition ser_annot (a : annotation) : sval :=
  ser_struct [mkf sp_an_name cd_str (an_name a); mkf sp_an_kvs cd_kvs (an_kvs a)].
Definition de_annot (v : sval) : option annotation :=
  match v with
  | VStruct f => do n <- getf sp_an_name cd_str f; do k <- getf sp_an_kvs cd_kvs f; Some (Annot n k)
  | _ => None
  end.
Definition cd_annot : codec annotation := Codec _ ser_annot de_annot (fun _ _ => false) (fun _ => None).
Definition cd_annots := cd_vec cd_annot.
Definition cd_ostr := cd_option cd_str.

(* ---------------- Arg / Method / Const / Field / EnumElement ---------------- *)
Section Depth.
  Variable d : nat.      (* fuel for the type trees *)

  Definition sp_arg_direction := spec fs_Arg "direction".
  Definition sp_arg_name := spec fs_Arg "name".
  Definition sp_arg_type := spec fs_Arg "arg_type".
  Definition sp_arg_annotations := spec fs_Arg "annotations".
  Definition sp_arg_doc := spec fs_Arg "doc".
  Definition sp_arg_sym := spec fs_Arg "symbol_range".
  Definition sp_arg_full := spec fs_Arg "full_range".
  Definition ser_arg (a : arg) : sval :=
    ser_struct [mkf sp_arg_direction cd_direction (a_dir a); mkf sp_arg_name cd_ostr (a_name a);
                mkf sp_arg_type (cd_ty d) (a_ty a); mkf sp_arg_annotations cd_annots (a_annots a);
                mkf sp_arg_doc cd_ostr (a_doc a); mkf sp_arg_sym cd_range (a_sym a); mkf sp_arg_full cd_range (a_full a)].
  Definition de_arg (v : sval) : option arg :=
    match v with
    | VStruct f =>
        do x1 <- getf sp_arg_direction cd_direction f; do x2 <- getf sp_arg_name cd_ostr f;
        do x3 <- getf sp_arg_type (cd_ty d) f; do x4 <- getf sp_arg_annotations cd_annots f;
        do x5 <- getf sp_arg_doc cd_ostr f; do x6 <- getf sp_arg_sym cd_range f; do x7 <- getf sp_arg_full cd_range f;
        Some (Arg x1 x2 x3 x4 x5 x6 x7)
    | _ => None
    end.
  Definition cd_arg : codec arg := Codec _ ser_arg de_arg (fun _ _ => false) (fun _ => None).

  Definition sp_m_oneway := spec fs_Method "oneway".
  Definition sp_m_name := spec fs_Method "name".
  Definition sp_m_ret := spec fs_Method "return_type".
  Definition sp_m_args := spec fs_Method "args".
  Definition sp_m_annotations := spec fs_Method "annotations".
  Definition sp_m_code := spec fs_Method "transact_code".
  Definition sp_m_doc := spec fs_Method "doc".
  Definition sp_m_sym := spec fs_Method "symbol_range".
  Definition sp_m_full := spec fs_Method "full_range".
  Definition sp_m_code_range := spec fs_Method "transact_code_range".
  Definition sp_m_oneway_range := spec fs_Method "oneway_range".
  Definition ser_method (m : method) : sval :=
    ser_struct [mkf sp_m_oneway cd_bool (m_oneway m); mkf sp_m_name cd_str (m_name m); mkf sp_m_ret (cd_ty d) (m_ret m);
                mkf sp_m_args (cd_vec cd_arg) (m_args m); mkf sp_m_annotations cd_annots (m_annots m);
                mkf sp_m_code (cd_option cd_nat) (m_code m); mkf sp_m_doc cd_ostr (m_doc m);
                mkf sp_m_sym cd_range (m_sym m); mkf sp_m_full cd_range (m_full m);
                mkf sp_m_code_range cd_range (m_code_range m); mkf sp_m_oneway_range cd_range (m_oneway_range m)].
  Definition de_method (v : sval) : option method :=
    match v with
    | VStruct f =>
        do x1 <- getf sp_m_oneway cd_bool f; do x2 <- getf sp_m_name cd_str f; do x3 <- getf sp_m_ret (cd_ty d) f;
        do x4 <- getf sp_m_args (cd_vec cd_arg) f; do x5 <- getf sp_m_annotations cd_annots f;
        do x6 <- getf sp_m_code (cd_option cd_nat) f; do x7 <- getf sp_m_doc cd_ostr f;
        do x8 <- getf sp_m_sym cd_range f; do x9 <- getf sp_m_full cd_range f;
        do x10 <- getf sp_m_code_range cd_range f; do x11 <- getf sp_m_oneway_range cd_range f;
        Some (Method x1 x2 x3 x4 x5 x6 x7 x8 x9 x10 x11)
    | _ => None
    end.
  Definition cd_method : codec method := Codec _ ser_method de_method (fun _ _ => false) (fun _ => None).

  Definition sp_c_name := spec fs_Const "name".
  Definition sp_c_type := spec fs_Const "const_type".
  Definition sp_c_value := spec fs_Const "value".
  Definition sp_c_annotations := spec fs_Const "annotations".
  Definition sp_c_doc := spec fs_Const "doc".
  Definition sp_c_sym := spec fs_Const "symbol_range".
  Definition sp_c_full := spec fs_Const "full_range".
  Definition ser_const (c : const) : sval :=
    ser_struct [mkf sp_c_name cd_str (c_name c); mkf sp_c_type (cd_ty d) (c_ty c); mkf sp_c_value cd_str (c_value c);
                mkf sp_c_annotations cd_annots (c_annots c); mkf sp_c_doc cd_ostr (c_doc c);
                mkf sp_c_sym cd_range (c_sym c); mkf sp_c_full cd_range (c_full c)].
  Definition de_const (v : sval) : option const :=
    match v with
    | VStruct f =>
        do x1 <- getf sp_c_name cd_str f; do x2 <- getf sp_c_type (cd_ty d) f; do x3 <- getf sp_c_value cd_str f;
        do x4 <- getf sp_c_annotations cd_annots f; do x5 <- getf sp_c_doc cd_ostr f;
        do x6 <- getf sp_c_sym cd_range f; do x7 <- getf sp_c_full cd_range f;
        Some (Const x1 x2 x3 x4 x5 x6 x7)
    | _ => None
    end.

  Definition sp_f_name := spec fs_Field "name".
  Definition sp_f_type := spec fs_Field "field_type".
  Definition sp_f_value := spec fs_Field "value".
  Definition sp_f_annotations := spec fs_Field "annotations".
  Definition sp_f_doc := spec fs_Field "doc".
  Definition sp_f_sym := spec fs_Field "symbol_range".
  Definition sp_f_full := spec fs_Field "full_range".
  Definition ser_field (x : field) : sval :=
    ser_struct [mkf sp_f_name cd_str (f_name x); mkf sp_f_type (cd_ty d) (f_ty x); mkf sp_f_value cd_ostr (f_value x);
                mkf sp_f_annotations cd_annots (f_annots x); mkf sp_f_doc cd_ostr (f_doc x);
                mkf sp_f_sym cd_range (f_sym x); mkf sp_f_full cd_range (f_full x)].
  Definition de_field (v : sval) : option field :=
    match v with
    | VStruct f =>
        do x1 <- getf sp_f_name cd_str f; do x2 <- getf sp_f_type (cd_ty d) f; do x3 <- getf sp_f_value cd_ostr f;
        do x4 <- getf sp_f_annotations cd_annots f; do x5 <- getf sp_f_doc cd_ostr f;
        do x6 <- getf sp_f_sym cd_range f; do x7 <- getf sp_f_full cd_range f;
        Some (Field x1 x2 x3 x4 x5 x6 x7)
    | _ => None
    end.

  Definition sp_ee_name := spec fs_EnumElement "name".
  Definition sp_ee_value := spec fs_EnumElement "value".
  Definition sp_ee_doc := spec fs_EnumElement "doc".
  Definition sp_ee_sym := spec fs_EnumElement "symbol_range".
  Definition sp_ee_full := spec fs_EnumElement "full_range".
  Definition ser_enum_elem (x : enum_elem) : sval :=
    ser_struct [mkf sp_ee_name cd_str (ee_name x); mkf sp_ee_value cd_ostr (ee_value x); mkf sp_ee_doc cd_ostr (ee_doc x);
                mkf sp_ee_sym cd_range (ee_sym x); mkf sp_ee_full cd_range (ee_full x)].
  Definition de_enum_elem (v : sval) : option enum_elem :=
    match v with
    | VStruct f =>
        do x1 <- getf sp_ee_name cd_str f; do x2 <- getf sp_ee_value cd_ostr f; do x3 <- getf sp_ee_doc cd_ostr f;
        do x4 <- getf sp_ee_sym cd_range f; do x5 <- getf sp_ee_full cd_range f;
        Some (EnumElem x1 x2 x3 x4 x5)
    | _ => None
    end.

  (* ---------------- element enums ---------------- *)
  Definition vn_ie_const := vname vs_InterfaceElement "Const".
  Definition vn_ie_method := vname vs_InterfaceElement "Method".
  Definition ser_ie (e : iface_elem) : sval :=
    match e with IEConst c => VVariant vn_ie_const [ser_const c] | IEMethod m => VVariant vn_ie_method [ser_method m] end.
  Definition de_ie (v : sval) : option iface_elem :=
    match v with
    | VVariant n [p] =>
        if str_eqb n vn_ie_const then do c <- de_const p; Some (IEConst c)
        else if str_eqb n vn_ie_method then do m <- de_method p; Some (IEMethod m)
        else None
    | _ => None
    end.
  Definition vn_pe_const := vname vs_ParcelableElement "Const".
  Definition vn_pe_field := vname vs_ParcelableElement "Field".
  Definition ser_pe (e : parc_elem) : sval :=
    match e with PEConst c => VVariant vn_pe_const [ser_const c] | PEField x => VVariant vn_pe_field [ser_field x] end.
  Definition de_pe (v : sval) : option parc_elem :=
    match v with
    | VVariant n [p] =>
        if str_eqb n vn_pe_const then do c <- de_const p; Some (PEConst c)
        else if str_eqb n vn_pe_field then do x <- de_field p; Some (PEField x)
        else None
    | _ => None
    end.
  Definition cd_ie : codec iface_elem := Codec _ ser_ie de_ie (fun _ _ => false) (fun _ => None).
  Definition cd_pe : codec parc_elem := Codec _ ser_pe de_pe (fun _ _ => false) (fun _ => None).
  Definition cd_enum_elem : codec enum_elem := Codec _ ser_enum_elem de_enum_elem (fun _ _ => false) (fun _ => None).

  (* ---------------- Interface / Parcelable / Enum / Item ---------------- *)
  Definition sp_i_oneway := spec fs_Interface "oneway".
  Definition sp_i_name := spec fs_Interface "name".
  Definition sp_i_elements := spec fs_Interface "elements".
  Definition sp_i_annotations := spec fs_Interface "annotations".
  Definition sp_i_doc := spec fs_Interface "doc".
  Definition sp_i_full := spec fs_Interface "full_range".
  Definition sp_i_sym := spec fs_Interface "symbol_range".
  Definition ser_interface (i : interface) : sval :=
    ser_struct [mkf sp_i_oneway cd_bool (i_oneway i); mkf sp_i_name cd_str (i_name i);
                mkf sp_i_elements (cd_vec cd_ie) (i_elems i); mkf sp_i_annotations cd_annots (i_annots i);
                mkf sp_i_doc cd_ostr (i_doc i); mkf sp_i_full cd_range (i_full i); mkf sp_i_sym cd_range (i_sym i)].
  Definition de_interface (v : sval) : option interface :=
    match v with
    | VStruct f =>
        do x1 <- getf sp_i_oneway cd_bool f; do x2 <- getf sp_i_name cd_str f; do x3 <- getf sp_i_elements (cd_vec cd_ie) f;
        do x4 <- getf sp_i_annotations cd_annots f; do x5 <- getf sp_i_doc cd_ostr f;
        do x6 <- getf sp_i_full cd_range f; do x7 <- getf sp_i_sym cd_range f;
        Some (Interface x1 x2 x3 x4 x5 x6 x7)
    | _ => None
    end.

  Definition sp_p_name := spec fs_Parcelable "name".
  Definition sp_p_elements := spec fs_Parcelable "elements".
  Definition sp_p_annotations := spec fs_Parcelable "annotations".
  Definition sp_p_doc := spec fs_Parcelable "doc".
  Definition sp_p_full := spec fs_Parcelable "full_range".
  Definition sp_p_sym := spec fs_Parcelable "symbol_range".
  Definition ser_parcelable (p : parcelable) : sval :=
    ser_struct [mkf sp_p_name cd_str (pc_name p); mkf sp_p_elements (cd_vec cd_pe) (pc_elems p);
                mkf sp_p_annotations cd_annots (pc_annots p); mkf sp_p_doc cd_ostr (pc_doc p);
                mkf sp_p_full cd_range (pc_full p); mkf sp_p_sym cd_range (pc_sym p)].
  Definition de_parcelable (v : sval) : option parcelable :=
    match v with
    | VStruct f =>
        do x1 <- getf sp_p_name cd_str f; do x2 <- getf sp_p_elements (cd_vec cd_pe) f;
        do x3 <- getf sp_p_annotations cd_annots f; do x4 <- getf sp_p_doc cd_ostr f;
        do x5 <- getf sp_p_full cd_range f; do x6 <- getf sp_p_sym cd_range f;
        Some (Parcelable x1 x2 x3 x4 x5 x6)
    | _ => None
    end.

  Definition sp_e_name := spec fs_Enum "name".
  Definition sp_e_elements := spec fs_Enum "elements".
  Definition sp_e_annotations := spec fs_Enum "annotations".
  Definition sp_e_doc := spec fs_Enum "doc".
  Definition sp_e_full := spec fs_Enum "full_range".
  Definition sp_e_sym := spec fs_Enum "symbol_range".
  Definition ser_enum (e : enum) : sval :=
    ser_struct [mkf sp_e_name cd_str (e_name e); mkf sp_e_elements (cd_vec cd_enum_elem) (e_elems e);
                mkf sp_e_annotations cd_annots (e_annots e); mkf sp_e_doc cd_ostr (e_doc e);
                mkf sp_e_full cd_range (e_full e); mkf sp_e_sym cd_range (e_sym e)].
  Definition de_enum (v : sval) : option enum :=
    match v with
    | VStruct f =>
        do x1 <- getf sp_e_name cd_str f; do x2 <- getf sp_e_elements (cd_vec cd_enum_elem) f;
        do x3 <- getf sp_e_annotations cd_annots f; do x4 <- getf sp_e_doc cd_ostr f;
        do x5 <- getf sp_e_full cd_range f; do x6 <- getf sp_e_sym cd_range f;
        Some (Enum x1 x2 x3 x4 x5 x6)
    | _ => None
    end.

  Definition vn_it_interface := vname vs_Item "Interface".
  Definition vn_it_parcelable := vname vs_Item "Parcelable".
  Definition vn_it_enum := vname vs_Item "Enum".
  Definition ser_item (it : item) : sval :=
    match it with
    | ItInterface i => VVariant vn_it_interface [ser_interface i]
    | ItParcelable p => VVariant vn_it_parcelable [ser_parcelable p]
    | ItEnum e => VVariant vn_it_enum [ser_enum e]
    end.
  Definition de_item (v : sval) : option item :=
    match v with
    | VVariant n [p] =>
        if str_eqb n vn_it_interface then do i <- de_interface p; Some (ItInterface i)
        else if str_eqb n vn_it_parcelable then do x <- de_parcelable p; Some (ItParcelable x)
        else if str_eqb n vn_it_enum then do e <- de_enum p; Some (ItEnum e)
        else None
    | _ => None
    end.
  Definition cd_item : codec item := Codec _ ser_item de_item (fun _ _ => false) (fun _ => None).

  (* ---------------- Package / Import / Aidl ---------------- *)
  Definition sp_pk_name := spec fs_Package "name".
  Definition sp_pk_sym := spec fs_Package "symbol_range".
  Definition sp_pk_full := spec fs_Package "full_range".
  Definition ser_package (p : package) : sval :=
    ser_struct [mkf sp_pk_name cd_str (pk_name p); mkf sp_pk_sym cd_range (pk_sym p); mkf sp_pk_full cd_range (pk_full p)].
  Definition de_package (v : sval) : option package :=
    match v with
    | VStruct f => do x1 <- getf sp_pk_name cd_str f; do x2 <- getf sp_pk_sym cd_range f; do x3 <- getf sp_pk_full cd_range f;
                   Some (Package x1 x2 x3)
    | _ => None
    end.
  Definition cd_package : codec package := Codec _ ser_package de_package (fun _ _ => false) (fun _ => None).

  Definition sp_im_path := spec fs_Import "path".
  Definition sp_im_name := spec fs_Import "name".
  Definition sp_im_sym := spec fs_Import "symbol_range".
  Definition sp_im_full := spec fs_Import "full_range".
  Definition ser_import (i : import) : sval :=
    ser_struct [mkf sp_im_path cd_str (im_path i); mkf sp_im_name cd_str (im_name i);
                mkf sp_im_sym cd_range (im_sym i); mkf sp_im_full cd_range (im_full i)].
  Definition de_import (v : sval) : option import :=
    match v with
    | VStruct f => do x1 <- getf sp_im_path cd_str f; do x2 <- getf sp_im_name cd_str f;
                   do x3 <- getf sp_im_sym cd_range f; do x4 <- getf sp_im_full cd_range f; Some (Import x1 x2 x3 x4)
    | _ => None
    end.
  Definition cd_import : codec import := Codec _ ser_import de_import (fun _ _ => false) (fun _ => None).

  Definition sp_ai_package := spec fs_Aidl "package".
  Definition sp_ai_imports := spec fs_Aidl "imports".
  Definition sp_ai_declared := spec fs_Aidl "declared_parcelables".
  Definition sp_ai_item := spec fs_Aidl "item".
  Definition ser_aidl (a : aidl) : sval :=
    ser_struct [mkf sp_ai_package cd_package (ai_package a); mkf sp_ai_imports (cd_vec cd_import) (ai_imports a);
                mkf sp_ai_declared (cd_vec cd_import) (ai_declared a); mkf sp_ai_item cd_item (ai_item a)].
  Definition de_aidl (v : sval) : option aidl :=
    match v with
    | VStruct f =>
        do x1 <- getf sp_ai_package cd_package f; do x2 <- getf sp_ai_imports (cd_vec cd_import) f;
        do x3 <- getf sp_ai_declared (cd_vec cd_import) f; do x4 <- getf sp_ai_item cd_item f;
        Some (Aidl x1 x2 x3 x4)
    | _ => None
    end.
End Depth.

(* depth of the deepest type tree in a document (fuel that de_ty needs) *)
Definition aidl_depth (a : aidl) : nat :=
  fold_right Nat.max O (map ty_depth
    (match ai_item a with
     | ItInterface i => flat_map (fun e => match e with
                                           | IEMethod m => m_ret m :: map a_ty (m_args m)
                                           | IEConst c => [c_ty c] end) (i_elems i)
     | ItParcelable p => flat_map (fun e => match e with PEField x => [f_ty x] | PEConst c => [c_ty c] end) (pc_elems p)
     | ItEnum _ => []
     end)).

Definition roundtrip (a : aidl) : option aidl := de_aidl (aidl_depth a) (ser_aidl (aidl_depth a) a).
