(* lalrpop's span-computing wrapper actions as data, and their evaluator.
   A wrapper  fn __actionN(__0, .., __k)  is straight-line code: for each temp it computes a span from its arguments
   (or from lookbehind/lookahead), calls an earlier action, and packs (start, value, end); it ends with a call of an
   earlier action on arguments and temps. *)
From AidlV Require Export Model.Actions.

Inductive argref := AArg (i : nat) | ATemp (j : nat).
Inductive locexp := LStart (a : argref) | LEnd (a : argref) | LBehind | LAhead.
Record wstep := WS { ws_start : locexp; ws_end : locexp; ws_callee : N;
                     ws_args : option (list argref) }.     (* None: the callee gets (&start, &end) as lookbehind/lookahead *)
Record wrapper := W { w_nargs : nat; w_steps : list wstep; w_final : N; w_final_args : list argref }.

Definition afun := ctx -> N -> N -> list triple -> sem * list diag.

(* lalrpop's own action bodies *)
Inductive glue := GId | GSome | GNone | GVecNil | GVecOne | GPush | GPushOpt | GTuple2 | GBehind | GAhead.

(* an action: glue / user action applied to the values at the given argument positions (of nargs), or a wrapper *)
Inductive adef :=
| AGlue (g : glue) (nargs : nat) (idx : list nat)
| AUser (u : utag) (nargs : nat) (idx : list nat)
| AWrap (w : wrapper).

Definition vals_at (args : list triple) (idx : list nat) : list sem := map (fun i => tval (nth i args (0, VBad, 0))) idx.

Definition run_glue (g : glue) (lb la : N) (vs : list sem) : sem :=
  match g, vs with
  | GId, [x] => x
  | GSome, [x] => VOpt (Some x)
  | GNone, [] => VOpt None
  | GVecNil, [] => VVec []
  | GVecOne, [x] => VVec [x]
  | GPush, [v; e] => vec_push v e
  | GPushOpt, [v; e] => vec_push_opt v e
  | GTuple2, [a; b] => VTuple [a; b]
  | GBehind, [] => VLoc lb
  | GAhead, [] => VLoc la
  | _, _ => VBad
  end.

Definition dummy : triple := (0, VBad, 0).
Definition getarg (args temps : list triple) (r : argref) : triple :=
  match r with AArg i => nth i args dummy | ATemp j => nth j temps dummy end.
Definition evalloc (args temps : list triple) (lb la : N) (l : locexp) : N :=
  match l with
  | LStart a => tstart (getarg args temps a)
  | LEnd a => tend (getarg args temps a)
  | LBehind => lb
  | LAhead => la
  end.

Definition is_panic (v : sem) : bool := match v with VPanic => true | _ => false end.

Section Run.
  Variable call : N -> afun.

  Fixpoint run_steps (cx : ctx) (lb la : N) (args temps : list triple) (steps : list wstep) (ds : list diag)
    : list triple * list diag :=
    match steps with
    | [] => (temps, ds)
    | s :: rest =>
        let st := evalloc args temps lb la (ws_start s) in
        let en := evalloc args temps lb la (ws_end s) in
        let '(v, d) := match ws_args s with
                       | None => call (ws_callee s) cx st en []
                       | Some l => call (ws_callee s) cx lb la (map (getarg args temps) l)
                       end in
        run_steps cx lb la args (temps ++ [(st, v, en)]) rest (ds ++ d)
    end.

  Definition run_wrapper (w : wrapper) : afun :=
    fun cx lb la args =>
      if Nat.eqb (length args) (w_nargs w) then
        let '(temps, ds) := run_steps cx lb la args [] (w_steps w) [] in
        if existsb (fun t => is_panic (tval t)) temps then (VPanic, ds)
        else let '(v, d) := call (w_final w) cx lb la (map (getarg args temps) (w_final_args w)) in (v, ds ++ d)
      else (VBad, []).
End Run.

Fixpoint lookup_action (n : N) (table : list (N * adef)) : option adef :=
  match table with
  | [] => None
  | (k, d) :: rest => if N.eqb k n then Some d else lookup_action n rest
  end.

(* fuel bounds the nesting of wrappers (every callee has a smaller number, so the table's length suffices) *)
Fixpoint eval_action (table : list (N * adef)) (fuel : nat) (n : N) : afun :=
  match fuel with
  | O => fun _ _ _ _ => (VBad, [])
  | S fuel' =>
      match lookup_action n table with
      | Some (AGlue g nargs idx) =>
          fun cx lb la args => if Nat.eqb (length args) nargs then (run_glue g lb la (vals_at args idx), []) else (VBad, [])
      | Some (AUser u nargs idx) =>
          fun cx lb la args => if Nat.eqb (length args) nargs then user_fn u cx (vals_at args idx) else (VBad, [])
      | Some (AWrap w) => run_wrapper (eval_action table fuel') w
      | None => fun _ _ _ _ => (VBad, [])
      end
  end.

(* well-formedness of the table, checked by computation on the regenerated table *)
Definition argref_ok (nargs ntemps : nat) (r : argref) : bool :=
  match r with AArg i => Nat.ltb i nargs | ATemp j => Nat.ltb j ntemps end.
Definition locexp_ok (nargs ntemps : nat) (l : locexp) : bool :=
  match l with LStart a | LEnd a => argref_ok nargs ntemps a | _ => true end.
Fixpoint steps_ok (self : N) (nargs ntemps : nat) (steps : list wstep) : bool :=
  match steps with
  | [] => true
  | s :: rest =>
      locexp_ok nargs ntemps (ws_start s) && locexp_ok nargs ntemps (ws_end s) && N.ltb (ws_callee s) self &&
      match ws_args s with None => true | Some l => forallb (argref_ok nargs ntemps) l end &&
      steps_ok self nargs (S ntemps) rest
  end.
Definition wrapper_ok (self : N) (w : wrapper) : bool :=
  steps_ok self (w_nargs w) O (w_steps w) && N.ltb (w_final w) self &&
  forallb (argref_ok (w_nargs w) (length (w_steps w))) (w_final_args w).
