(* Regular expressions with the semantics of the `regex` crate as the modelled code uses it:
   anchored leftmost-first (Perl-like) matching -- alternation prefers the left branch, repetition is greedy --
   over Unicode scalar values; classes are lists of inclusive ranges.  The matcher is a backtracking
   continuation-passing function; `*` uses fuel = remaining length + 1 and insists on progress. *)
From AidlV Require Export Lib.Str.

Inductive re :=
| RClass (ranges : list (N * N))
| RSeq (a b : re)
| RAlt (a b : re)
| RStar (a : re)
| REps.

Definition RPlus (a : re) : re := RSeq a (RStar a).
Definition ROpt (a : re) : re := RAlt a REps.
Fixpoint RLit (s : str) : re := match s with [] => REps | c :: s' => RSeq (RClass [(c, c)]) (RLit s') end.
Fixpoint RSeqs (l : list re) : re := match l with [] => REps | [a] => a | a :: l' => RSeq a (RSeqs l') end.
Fixpoint RAlts (l : list re) : re := match l with [] => RClass [] | [a] => a | a :: l' => RAlt a (RAlts l') end.

Definition in_class (ranges : list (N * N)) (c : N) : bool :=
  existsb (fun r => N.leb (fst r) c && N.leb c (snd r)) ranges.

(* matching state: remaining input and the number of code points consumed so far *)
Definition mst := (str * nat)%type.

Section Match.
  Context {A : Type}.

  Fixpoint star_loop (ma : mst -> (mst -> option A) -> option A) (fuel : nat) (s : mst) (k : mst -> option A) : option A :=
    match fuel with
    | O => k s
    | S fuel' =>
        (* greedy: one more iteration (which must consume something), else stop here *)
        match ma s (fun s' => if Nat.ltb (snd s) (snd s') then star_loop ma fuel' s' k else None) with
        | Some r => Some r
        | None => k s
        end
    end.

  Variable fuel0 : nat.       (* at least the length of the input + 1 *)

  Fixpoint mre (r : re) (s : mst) (k : mst -> option A) {struct r} : option A :=
    match r with
    | RClass ranges =>
        match fst s with
        | c :: rest => if in_class ranges c then k (rest, S (snd s)) else None
        | [] => None
        end
    | RSeq a b => mre a s (fun s' => mre b s' k)
    | RAlt a b => match mre a s k with Some x => Some x | None => mre b s k end
    | RStar a => star_loop (mre a) fuel0 s k
    | REps => k s
    end.
End Match.

(* length (in code points) of the leftmost-first match of r anchored at the start of s *)
Definition match_len_fuel (fuel : nat) (r : re) (s : str) : option nat := mre fuel r (s, O) (fun s' => Some (snd s')).
Definition match_len (r : re) (s : str) : option nat := match_len_fuel (S (length s)) r s.

(* ---- unanchored search (Regex::find), non-overlapping iteration (find_iter), split, replace_all ---- *)
(* first match at or after the current position: (start index, length) relative to s *)
Fixpoint find_from (r : re) (s : str) (i : nat) (fuel : nat) : option (nat * nat) :=
  match fuel with
  | O => None
  | S fuel' =>
      match match_len r s with
      | Some n => Some (i, n)
      | None => match s with [] => None | _ :: s' => find_from r s' (S i) fuel' end
      end
  end.
Definition find_re (r : re) (s : str) : option (nat * nat) := find_from r s O (S (length s)).

(* all non-overlapping matches, as (text before the match, matched text) pairs, and the text after the last match.
   Only used with regexes that never match the empty string. *)
Fixpoint matches_aux (r : re) (s : str) (fuel : nat) : list (str * str) * str :=
  match fuel with
  | O => ([], s)
  | S fuel' =>
      match find_re r s with
      | Some (i, n) =>
          if Nat.eqb n 0 then ([], s)
          else
            let before := firstn i s in
            let m := firstn n (skipn i s) in
            let '(rest, tail) := matches_aux r (skipn (i + n) s) fuel' in
            ((before, m) :: rest, tail)
      | None => ([], s)
      end
  end.
Definition matches (r : re) (s : str) : list (str * str) * str := matches_aux r s (S (length s)).

(* Regex::split *)
Definition split_re (r : re) (s : str) : list str :=
  let '(ms, tail) := matches r s in map fst ms ++ [tail].

(* Regex::replace_all with a replacement computed from the matched text *)
Definition replace_all (r : re) (f : str -> str) (s : str) : str :=
  let '(ms, tail) := matches r s in flat_map (fun bm => fst bm ++ f (snd bm)) ms ++ tail.
