(* Strings as lists of Unicode scalar values; the operations of Rust's str/String that the
   modelled code uses (equality, lexicographic order, ends_with, contains, join). *)
From Coq Require Export Ascii String.
From Coq Require Export List Arith PeanoNat NArith Bool Lia.
Export ListNotations.
Open Scope N_scope.
Open Scope list_scope.

Definition str := list N.

(* Coq string literal -> str (ASCII only; used for the constants that occur in the Rust source) *)
Definition lit (x : string) : str :=
  List.map (fun a => N_of_ascii a) (list_ascii_of_string x).

Fixpoint str_eqb (a b : str) : bool :=
  match a, b with
  | [], [] => true
  | x :: a', y :: b' => N.eqb x y && str_eqb a' b'
  | _, _ => false
  end.

Lemma str_eqb_eq a b : str_eqb a b = true <-> a = b.
Proof.
  revert b; induction a as [|x a IH]; intros [|y b]; cbn [str_eqb]; try (split; congruence).
  rewrite andb_true_iff, N.eqb_eq, IH. split; [intros [-> ->]; reflexivity | intros H; inversion H; auto].
Qed.

Lemma str_eqb_refl a : str_eqb a a = true.
Proof. apply str_eqb_eq; reflexivity. Qed.

Lemma str_eqb_neq a b : str_eqb a b = false <-> a <> b.
Proof.
  split; intros H.
  - intros E. apply str_eqb_eq in E. congruence.
  - destruct (str_eqb a b) eqn:E; [apply str_eqb_eq in E; contradiction | reflexivity].
Qed.

Lemma str_eqb_sym a b : str_eqb a b = str_eqb b a.
Proof.
  destruct (str_eqb a b) eqn:E.
  - apply str_eqb_eq in E; subst. symmetry; apply str_eqb_refl.
  - symmetry. apply str_eqb_neq. apply str_eqb_neq in E. congruence.
Qed.

(* Lexicographic order on code points (= Rust's Ord for str, since UTF-8 preserves code point order) *)
Fixpoint str_ltb (a b : str) : bool :=
  match a, b with
  | [], [] => false
  | [], _ :: _ => true
  | _ :: _, [] => false
  | x :: a', y :: b' => if N.ltb x y then true else if N.eqb x y then str_ltb a' b' else false
  end.

Definition str_leb (a b : str) : bool := negb (str_ltb b a).

Definition mem_str (x : str) (l : list str) : bool := existsb (str_eqb x) l.

Lemma mem_str_In x l : mem_str x l = true <-> In x l.
Proof.
  unfold mem_str. rewrite existsb_exists. split.
  - intros [y [Hy E]]. apply str_eqb_eq in E; subst; auto.
  - intros H; exists x; split; auto using str_eqb_refl.
Qed.

(* minimum of a list (Iterator::min) *)
Fixpoint min_str (l : list str) : option str :=
  match l with
  | [] => None
  | x :: l' => match min_str l' with
               | None => Some x
               | Some m => Some (if str_ltb m x then m else x)
               end
  end.

Definition dotc : N := 46.

Definition is_prefix_of (p s : str) : bool := str_eqb (firstn (length p) s) p.

Definition ends_with (s suf : str) : bool :=
  (Nat.leb (length suf) (length s)) && str_eqb (skipn (length s - length suf) s) suf.

Definition contains_char (c : N) (s : str) : bool := existsb (N.eqb c) s.

Definition is_empty {A} (l : list A) : bool := match l with [] => true | _ => false end.

(* v.join(".") *)
Fixpoint join_dots (l : list str) : str :=
  match l with
  | [] => []
  | [x] => x
  | x :: l' => x ++ dotc :: join_dots l'
  end.

(* split('.') : always at least one segment *)
Fixpoint split_dots (s : str) : list str :=
  match s with
  | [] => [[]]
  | c :: s' =>
      if N.eqb c dotc then [] :: split_dots s'
      else match split_dots s' with
           | [] => [[c]]   (* unreachable *)
           | seg :: r => (c :: seg) :: r
           end
  end.

Lemma ends_with_spec s suf : ends_with s suf = true <-> exists p, s = p ++ suf.
Proof.
  unfold ends_with. rewrite andb_true_iff, Nat.leb_le, str_eqb_eq. split.
  - intros [Hl E]. exists (firstn (length s - length suf) s).
    rewrite <- E at 2. rewrite firstn_skipn. reflexivity.
  - intros [p ->]. rewrite app_length. split; [lia|].
    replace (length p + length suf - length suf)%nat with (length p) by lia.
    rewrite skipn_app, skipn_all, Nat.sub_diag. reflexivity.
Qed.
