//! Runs the real library on case files and prints (a) Coq terms of what it returned, for the
//! correspondence with the Coq model, and (b) verdicts of implementation-vs-implementation checks.
//!
//! usage: aidl-verif-harness <mode> <cases-file>      modes: validate traverse lookup history serde parse
//! case file (one record per line):
//!   CASE <name> / FILE <id> <hex utf8> / OP ADD <id> <hex> / OP REMOVE <id> / OP VALIDATE /
//!   OP ADDFILE <id> ok|bad <hex> / OP ADDFILE <id> missing / END
mod sx;

use aidl_parser::ast;
use aidl_parser::diagnostic::Diagnostic;
use aidl_parser::symbol::Symbol;
use aidl_parser::traverse::{self, SymbolFilter};
use aidl_parser::{ParseFileResult, Parser};
use std::collections::HashMap;
use std::fmt::Write as _;
use std::io::{BufRead, Write};
use std::panic::{catch_unwind, AssertUnwindSafe};

#[derive(Clone, Debug)]
enum Op {
    Add(String, String),
    Remove(String),
    Validate,
    AddFileOk(String, Vec<u8>),
    AddFileMissing(String),
}

#[derive(Default, Clone, Debug)]
struct Case {
    name: String,
    files: Vec<(String, String)>,
    ops: Vec<Op>,
}

fn unhex(s: &str) -> Vec<u8> {
    (0..s.len() / 2)
        .map(|i| u8::from_str_radix(&s[2 * i..2 * i + 2], 16).unwrap())
        .collect()
}

fn read_cases(path: &str) -> Vec<Case> {
    let f = std::io::BufReader::new(std::fs::File::open(path).expect("cases file"));
    let mut cases = Vec::new();
    let mut cur = Case::default();
    for line in f.lines() {
        let line = line.unwrap();
        let p: Vec<&str> = line.split(' ').collect();
        match p[0] {
            "CASE" => {
                cur = Case::default();
                cur.name = p[1].to_string();
            }
            "FILE" => cur.files.push((
                p[1].to_string(),
                String::from_utf8(unhex(p.get(2).copied().unwrap_or(""))).unwrap(),
            )),
            "OP" => cur.ops.push(match p[1] {
                "ADD" => Op::Add(
                    p[2].to_string(),
                    String::from_utf8(unhex(p.get(3).copied().unwrap_or(""))).unwrap(),
                ),
                "REMOVE" => Op::Remove(p[2].to_string()),
                "VALIDATE" => Op::Validate,
                "ADDFILE" => match p[3] {
                    "missing" => Op::AddFileMissing(p[2].to_string()),
                    _ => Op::AddFileOk(p[2].to_string(), unhex(p.get(4).copied().unwrap_or(""))),
                },
                x => panic!("bad op {}", x),
            }),
            "END" => cases.push(cur.clone()),
            "" => (),
            x => panic!("bad line {}", x),
        }
    }
    cases
}

type Res = HashMap<String, ParseFileResult<String>>;

fn sorted<'a>(r: &'a Res) -> Vec<&'a ParseFileResult<String>> {
    let mut v: Vec<_> = r.values().collect();
    v.sort_by(|a, b| a.id.cmp(&b.id));
    v
}

fn res_eq(a: &Res, b: &Res) -> bool {
    if a.len() != b.len() {
        return false;
    }
    a.iter().all(|(k, x)| match b.get(k) {
        Some(y) => x.id == y.id && x.ast == y.ast && x.diagnostics == y.diagnostics,
        None => false,
    })
}

fn frs(out: &mut String, r: &Res) {
    let v = sorted(r);
    sx::list(out, &v, |o, fr| sx::file_result(o, &fr.id, &fr.ast, &fr.diagnostics));
}

fn build(files: &[(String, String)]) -> Parser<String> {
    let mut p = Parser::new();
    for (id, c) in files {
        p.add_content(id.clone(), c);
    }
    p
}

// ---------------------------------------------------------------- validate
// a case may reach its project through a history (OP lines); its files are then the contents that survive it
fn run_ops(ops: &[Op]) -> (Parser<String>, Vec<(String, String)>) {
    let mut p = Parser::new();
    let mut abs: Vec<(String, String)> = Vec::new();
    for op in ops {
        match op {
            Op::Add(id, t) => {
                p.add_content(id.clone(), t);
                if let Some(e) = abs.iter_mut().find(|(i, _)| i == id) {
                    e.1 = t.clone();
                } else {
                    abs.push((id.clone(), t.clone()));
                }
            }
            Op::Remove(id) => {
                p.remove_content(id.clone());
                abs.retain(|(i, _)| i != id);
            }
            Op::Validate => {
                let _ = p.validate();
            }
            _ => panic!("file operations are not supported in validate mode"),
        }
    }
    (p, abs)
}

fn mode_validate(c0: &Case, out: &mut String) {
    let (p, files) = if c0.ops.is_empty() { (build(&c0.files), c0.files.clone()) } else { run_ops(&c0.ops) };
    let c = &Case { name: c0.name.clone(), files, ops: Vec::new() };
    let parsed: Res = p.verif_parse_results().clone();
    let v1 = p.validate();
    write!(out, "V {} (", c.name).unwrap();
    frs(out, &parsed);
    frs(out, &v1);
    out.push_str(")\n");

    // implementation-vs-implementation: keys / ids (C01), repetition, insertion order, threads (C11)
    let keys_ok = {
        let mut last: HashMap<&String, ()> = HashMap::new();
        for (id, _) in &c.files {
            last.insert(id, ());
        }
        v1.len() == last.len() && v1.iter().all(|(k, r)| &r.id == k && last.contains_key(k))
    };
    writeln!(out, "X {} keys {}", c.name, if keys_ok { "ok" } else { "FAIL" }).unwrap();
    let mut det = res_eq(&v1, &p.validate());
    // distinct ids only: the last content per id, inserted in other orders
    let mut last: Vec<(String, String)> = Vec::new();
    for (id, t) in &c.files {
        if let Some(e) = last.iter_mut().find(|(i, _)| i == id) {
            e.1 = t.clone();
        } else {
            last.push((id.clone(), t.clone()));
        }
    }
    let n = last.len();
    for k in 0..n.min(4) {
        let mut o = last.clone();
        o.rotate_left(k);
        if k % 2 == 1 {
            o.reverse();
        }
        det &= res_eq(&v1, &build(&o).validate());
    }
    let files = last.clone();
    let h = std::thread::spawn(move || build(&files).validate());
    det &= res_eq(&v1, &h.join().unwrap());
    writeln!(out, "X {} determinism {}", c.name, if det { "ok" } else { "FAIL" }).unwrap();
    // a digest of every file's result (tree + diagnostics incl. messages), for before/after comparisons (C13)
    for fr in sorted(&v1) {
        use std::hash::{Hash, Hasher};
        let mut h = std::collections::hash_map::DefaultHasher::new();
        // canonical form (annotation parameters sorted), not Debug: HashMap's Debug order varies per instance
        let mut canon = String::new();
        sx::file_result(&mut canon, &fr.id, &fr.ast, &fr.diagnostics);
        canon.hash(&mut h);
        writeln!(out, "X {} hash:{} ok {:016x}", c.name, fr.id, h.finish()).unwrap();
    }
}

// ---------------------------------------------------------------- serde
fn ron_roundtrip(a: &ast::Aidl) -> Result<bool, String> {
    let text = ron::to_string(a).map_err(|e| format!("ser: {e}"))?;
    let back: ast::Aidl = ron::from_str(&text).map_err(|e| format!("de: {e}"))?;
    Ok(&back == a)
}

fn mode_serde(c: &Case, out: &mut String) {
    let p = build(&c.files);
    let parsed: Res = p.verif_parse_results().clone();
    let v = p.validate();
    for (stage, r) in [("parsed", &parsed), ("validated", &v)] {
        for fr in sorted(r) {
            if let Some(a) = &fr.ast {
                let verdict = match ron_roundtrip(a) {
                    Ok(true) => "ok".to_string(),
                    Ok(false) => "FAIL differs".to_string(),
                    Err(e) => format!("FAIL {}", e.replace('\n', " ")),
                };
                writeln!(out, "X {} serde:{}:{} {}", c.name, stage, fr.id, verdict).unwrap();
            }
        }
    }
    write!(out, "S {} (", c.name).unwrap();
    let mut trees: Vec<&ast::Aidl> = Vec::new();
    for r in [&parsed, &v] {
        for fr in sorted(r) {
            if let Some(a) = &fr.ast {
                trees.push(a);
            }
        }
    }
    sx::list(out, &trees, |o, a| sx::aidl(o, a));
    out.push_str(")\n");
}

// ---------------------------------------------------------------- traverse
fn tag(s: &Symbol) -> u32 {
    match s {
        Symbol::Package(..) => 0,
        Symbol::Import(..) => 1,
        Symbol::Interface(..) => 2,
        Symbol::Parcelable(..) => 3,
        Symbol::Enum(..) => 4,
        Symbol::Method(..) => 5,
        Symbol::Arg(..) => 6,
        Symbol::Const(..) => 7,
        Symbol::Field(..) => 8,
        Symbol::EnumElement(..) => 9,
        Symbol::Type(..) => 10,
    }
}

fn fp(out: &mut String, s: &Symbol) {
    sx::rec(out, |o| {
        sx::n(o, tag(s) as u64);
        sx::ostr(o, &s.get_name());
        sx::ostr(o, &s.get_qualified_name());
        sx::range(o, s.get_range());
        sx::range(o, s.get_full_range());
    });
}

fn fps(out: &mut String, v: &[Symbol]) {
    sx::list(out, v, |o, s| fp(o, s));
}

const FILTERS: [(SymbolFilter, u64); 3] = [
    (SymbolFilter::ItemsOnly, 0),
    (SymbolFilter::ItemsAndItemElements, 1),
    (SymbolFilter::All, 2),
];

fn mode_traverse(c: &Case, out: &mut String) {
    let p = build(&c.files);
    let v = p.validate();
    for fr in sorted(&v) {
        let a = match &fr.ast {
            Some(a) => a,
            None => continue,
        };
        write!(out, "T {}:{} (", c.name, fr.id).unwrap();
        sx::aidl(out, a);
        out.push('(');
        for (flt, fid) in FILTERS.iter() {
            let mut walk: Vec<Symbol> = Vec::new();
            traverse::walk_symbols(a, *flt, |s| walk.push(s));
            out.push('(');
            sx::n(out, *fid);
            fps(out, &walk);
            // filter / find by kind
            out.push('(');
            for k in 0..=10u32 {
                let f = traverse::filter_symbols(a, *flt, |s| tag(s) == k);
                let g = traverse::find_symbol(a, *flt, |s| tag(s) == k);
                out.push('(');
                sx::n(out, k as u64);
                fps(out, &f);
                sx::opt(out, &g, |o, s| fp(o, s));
                out.push(')');
            }
            out.push_str(")(");
            // filter / find by name
            let mut names: Vec<String> = walk.iter().filter_map(|s| s.get_name()).collect();
            names.push("__absent__".to_string());
            names.sort();
            names.dedup();
            for n in names.iter() {
                let f = traverse::filter_symbols(a, *flt, |s| s.get_name().as_deref() == Some(n));
                let g = traverse::find_symbol(a, *flt, |s| s.get_name().as_deref() == Some(n));
                out.push('(');
                sx::s(out, n);
                fps(out, &f);
                sx::opt(out, &g, |o, s| fp(o, s));
                out.push(')');
            }
            out.push_str(")(");
            // find the k-th visited
            for k in 0..=walk.len() {
                let mut n = 0usize;
                let g = traverse::find_symbol(a, *flt, |_| {
                    n += 1;
                    n - 1 == k
                });
                sx::opt(out, &g, |o, s| fp(o, s));
            }
            out.push_str("))");
        }
        out.push(')');
        // walk_types / walk_methods / walk_args
        out.push('(');
        let mut tystr = String::new();
        traverse::walk_types(a, |t| sx::ty(&mut tystr, t));
        out.push_str(&tystr);
        out.push(')');
        let mut ms: Vec<&ast::Method> = Vec::new();
        traverse::walk_methods(a, |m| ms.push(m));
        sx::list(out, &ms, |o, m| sx::range(o, &m.full_range));
        let mut args: Vec<(&ast::Method, &ast::Arg)> = Vec::new();
        traverse::walk_args(a, |m, x| args.push((m, x)));
        sx::list(out, &args, |o, (m, x)| {
            o.push('(');
            sx::range(o, &m.full_range);
            sx::range(o, &x.full_range);
            o.push(')');
        });
        out.push_str(")\n");
        // the qualified names the library reports for the item and the package symbol (the check computes what they
        // should be from the text: dotted package name, "package.Name")
        traverse::walk_symbols(a, SymbolFilter::ItemsOnly, |s| {
            let t = tag(&s);
            if t == 0 || (2..=4).contains(&t) {
                let q = s.get_qualified_name().unwrap_or_default();
                let hex: String = q.bytes().map(|b| format!("{:02x}", b)).collect();
                writeln!(out, "X {} {}:{} ok {}", c.name, if t == 0 { "pkgq" } else { "itemq" }, fr.id, hex).unwrap();
            }
        });
    }
}

// ---------------------------------------------------------------- lookup (find_symbol_at_line_col)
fn mode_lookup(c: &Case, out: &mut String) {
    let p = build(&c.files);
    let v = p.validate();
    for fr in sorted(&v) {
        let a = match &fr.ast {
            Some(a) => a,
            None => continue,
        };
        let text = &c.files.iter().rev().find(|(id, _)| id == &fr.id).unwrap().1;
        let lookup = line_col::LineColLookup::new(text);
        let mut positions: Vec<(usize, usize)> = Vec::new();
        let mut last = (1usize, 1usize);
        // very long texts (lines beyond 2^16 columns): a sparse set of offsets plus every offset in or next to a symbol's name
        let sparse = text.len() > 30000;
        let mut near: Vec<(usize, usize)> = Vec::new();
        if sparse {
            traverse::walk_symbols(a, SymbolFilter::All, |sym| {
                let r = sym.get_range();
                near.push((r.start.offset.saturating_sub(2), r.end.offset + 2));
            });
        }
        for (k, (off, _)) in text.char_indices().chain(std::iter::once((text.len(), ' '))).enumerate() {
            if sparse && k % 1999 != 0 && !near.iter().any(|(s, e)| *s <= off && off <= *e) {
                continue;
            }
            let lc = lookup.get_by_cluster(off);
            if lc.0 != last.0 {
                positions.push((last.0, last.1 + 1)); // one past the end of the previous line
            }
            positions.push(lc);
            last = lc;
        }
        positions.push((last.0, last.1 + 1));
        positions.push((last.0 + 1, 1));
        positions.push((0, 0));
        // positions far to the right of, or a line away from, every symbol boundary (a lookup that packs line and column
        // into one word confuses them with the boundary itself); no symbol contains them unless the text really reaches there
        traverse::walk_symbols(a, SymbolFilter::All, |sym| {
            let r = sym.get_range();
            for lc in [r.start.line_col, r.end.line_col] {
                for shift in [1usize << 8, 1 << 16, 1 << 32] {
                    positions.push((lc.0, lc.1 + shift));
                    if lc.0 > 1 {
                        positions.push((lc.0 - 1, lc.1 + shift));
                    }
                    positions.push((lc.0 + shift, lc.1));
                }
            }
        });
        positions.dedup();
        write!(out, "L {}:{} (", c.name, fr.id).unwrap();
        sx::aidl(out, a);
        out.push('(');
        for (flt, fid) in FILTERS.iter() {
            out.push('(');
            sx::n(out, *fid);
            out.push('(');
            for lc in positions.iter() {
                let g = traverse::find_symbol_at_line_col(a, *flt, *lc);
                write!(out, "({} {} ", lc.0, lc.1).unwrap();
                sx::opt(out, &g, |o, s| fp(o, s));
                out.push(')');
            }
            out.push_str("))");
        }
        out.push_str("))\n");
    }
}

// ---------------------------------------------------------------- history
fn mode_history(c: &Case, out: &mut String, tmp: &std::path::Path) {
    // the real parser, keyed by path for add_file
    let mut p: Parser<std::path::PathBuf> = Parser::new();
    let _ = std::fs::create_dir_all(tmp.join("sub")); // ids like `sub/../i0`: paths that are not in canonical form
    let mut abs: Vec<(String, String)> = Vec::new(); // abstract id -> latest content, insertion-ordered
    let mut ok = true;
    let mut detail = String::new();
    let mut steps = String::new();
    let set = |abs: &mut Vec<(String, String)>, id: &str, t: &str| {
        if let Some(e) = abs.iter_mut().find(|(i, _)| i == id) {
            e.1 = t.to_string();
        } else {
            abs.push((id.to_string(), t.to_string()));
        }
    };
    let check = |p: &Parser<std::path::PathBuf>, abs: &Vec<(String, String)>| -> bool {
        let got = p.validate();
        let mut fresh: Parser<std::path::PathBuf> = Parser::new();
        for (id, t) in abs.iter().rev() {
            fresh.add_content(tmp.join(id), t);
        }
        let want = fresh.validate();
        got.len() == want.len()
            && got.iter().all(|(k, x)| match want.get(k) {
                Some(y) => x.id == y.id && x.ast == y.ast && x.diagnostics == y.diagnostics && &x.id == k,
                None => false,
            })
            && got.len() == abs.len()
    };
    for (i, op) in c.ops.iter().enumerate() {
        match op {
            Op::Add(id, t) => {
                p.add_content(tmp.join(id), t);
                set(&mut abs, id, t);
            }
            Op::Remove(id) => {
                p.remove_content(tmp.join(id));
                abs.retain(|(i, _)| i != id);
            }
            Op::Validate => {
                let a = p.validate();
                let b = p.validate();
                let same = a.len() == b.len()
                    && a.iter().all(|(k, x)| b.get(k).map_or(false, |y| x.ast == y.ast && x.diagnostics == y.diagnostics));
                if !same {
                    ok = false;
                    write!(detail, " step{}:validate-not-idempotent", i).unwrap();
                }
            }
            Op::AddFileOk(id, bytes) => {
                let path = tmp.join(id);
                std::fs::write(&path, bytes).unwrap();
                let r = p.add_file(&path);
                match (std::str::from_utf8(bytes), r) {
                    (Ok(t), Ok(())) => set(&mut abs, id, t),
                    (Err(_), Err(_)) => (),
                    (Ok(_), Err(e)) => {
                        ok = false;
                        write!(detail, " step{}:add_file-failed:{}", i, e).unwrap();
                    }
                    (Err(_), Ok(())) => {
                        ok = false;
                        write!(detail, " step{}:add_file-accepted-invalid-utf8", i).unwrap();
                    }
                }
                let _ = std::fs::remove_file(&path);
            }
            Op::AddFileMissing(id) => {
                let path = tmp.join(id);
                let _ = std::fs::remove_file(&path);
                if p.add_file(&path).is_ok() {
                    ok = false;
                    write!(detail, " step{}:add_file-missing-ok", i).unwrap();
                }
            }
        }
        if !check(&p, &abs) {
            ok = false;
            write!(detail, " step{}:differs-from-fresh", i).unwrap();
        }
        {
            let r = p.validate();
            let mut keys: Vec<String> = r
                .keys()
                .map(|k| k.strip_prefix(tmp).unwrap_or(k).to_string_lossy().to_string())
                .collect();
            keys.sort();
            steps.push('(');
            for k in &keys {
                sx::s(&mut steps, k);
            }
            steps.push(')');
        }
    }
    write!(out, "H {} ((", c.name).unwrap();
    for op in &c.ops {
        match op {
            Op::Add(id, t) => {
                out.push_str("(0 ");
                sx::s(out, id);
                sx::s(out, t);
                out.push(')');
            }
            Op::Remove(id) => {
                out.push_str("(1 ");
                sx::s(out, id);
                out.push(')');
            }
            Op::Validate => out.push_str("(2)"),
            Op::AddFileOk(id, bytes) => {
                out.push_str("(3 ");
                sx::s(out, id);
                match std::str::from_utf8(bytes) {
                    Ok(t) => {
                        out.push('(');
                        sx::s(out, t);
                        out.push(')');
                    }
                    Err(_) => out.push_str("()"),
                }
                out.push(')');
            }
            Op::AddFileMissing(id) => {
                out.push_str("(3 ");
                sx::s(out, id);
                out.push_str("())");
            }
        }
    }
    writeln!(out, ")({}))", steps).unwrap();
    writeln!(out, "X {} history {}{}", c.name, if ok { "ok" } else { "FAIL" }, detail).unwrap();
}

// ---------------------------------------------------------------- parse
fn mode_parse(c: &Case, out: &mut String) {
    for (id, text) in &c.files {
        let _ = aidl_parser::diagnostic::verif_take_expected();
        let mut p = Parser::new();
        p.add_content(id.clone(), text);
        let expected = aidl_parser::diagnostic::verif_take_expected();
        let r = p.verif_parse_results();
        let fr = &r[id];
        write!(out, "P {}:{} (", c.name, id).unwrap();
        sx::s(out, text);
        // what LineColLookup::get_by_cluster answers at every character boundary (and at the end)
        {
            let lookup = line_col::LineColLookup::new(text);
            out.push('(');
            for (off, _) in text.char_indices().chain(std::iter::once((text.len(), ' '))) {
                let lc = lookup.get_by_cluster(off);
                write!(out, "({} {})", lc.0, lc.1).unwrap();
            }
            out.push(')');
        }
        sx::file_result(out, &fr.id, &fr.ast, &fr.diagnostics);
        sx::list(out, &expected, |o, v| sx::list(o, v, |o, x| sx::s(o, x)));
        out.push_str(")\n");
        // every reported line/col recomputed independently (C04)
        let lookup = line_col::LineColLookup::new(text);
        let mut bad = 0;
        let mut chk = |r: &ast::Range| {
            for pz in [&r.start, &r.end] {
                if pz.offset > text.len() || !text.is_char_boundary(pz.offset) || lookup.get_by_cluster(pz.offset) != pz.line_col {
                    bad += 1;
                }
            }
        };
        for d in &fr.diagnostics {
            chk(&d.range);
            for ri in &d.related_infos {
                chk(&ri.range);
            }
        }
        writeln!(out, "X {}:{} diagpos {}", c.name, id, if bad == 0 { "ok" } else { "FAIL" }).unwrap();
    }
}

// parse mode plus, per file, what validate() returns for it (Q lines, same layout as P lines; read by Python oracles only)
fn mode_parsev(c: &Case, out: &mut String) {
    mode_parse(c, out);
    for (id, text) in &c.files {
        let mut p = Parser::new();
        p.add_content(id.clone(), text);
        let v = p.validate();
        let fr = &v[id];
        write!(out, "Q {}:{} (", c.name, id).unwrap();
        sx::s(out, text);
        out.push_str("()");
        sx::file_result(out, &fr.id, &fr.ast, &fr.diagnostics);
        out.push_str("())\n");
    }
}

fn main() {
    let args: Vec<String> = std::env::args().collect();
    if args.len() < 3 {
        eprintln!("usage: {} <mode> <cases-file>", args[0]);
        std::process::exit(2);
    }
    std::panic::set_hook(Box::new(|_| {}));
    let mode = args[1].as_str();
    let cases = read_cases(&args[2]);
    let tmp = std::env::temp_dir().join(format!("aidl-verif-{}", std::process::id()));
    if mode == "history" {
        std::fs::create_dir_all(&tmp).unwrap();
    }
    let stdout = std::io::stdout();
    let mut w = std::io::BufWriter::new(stdout.lock());
    for c in &cases {
        let mut out = String::new();
        let r = catch_unwind(AssertUnwindSafe(|| match mode {
            "validate" => mode_validate(c, &mut out),
            "serde" => mode_serde(c, &mut out),
            "traverse" => mode_traverse(c, &mut out),
            "lookup" => mode_lookup(c, &mut out),
            "history" => mode_history(c, &mut out, &tmp),
            "parse" => mode_parse(c, &mut out),
            "parsev" => mode_parsev(c, &mut out),
            _ => panic!("unknown mode"),
        }));
        match r {
            Ok(()) => w.write_all(out.as_bytes()).unwrap(),
            Err(e) => {
                let msg = e
                    .downcast_ref::<String>()
                    .cloned()
                    .or_else(|| e.downcast_ref::<&str>().map(|s| s.to_string()))
                    .unwrap_or_default();
                writeln!(w, "X {} panic FAIL {}", c.name, msg.replace('\n', " ")).unwrap();
            }
        }
        writeln!(w, "X {} done ok", c.name).unwrap();
    }
    if mode == "history" {
        let _ = std::fs::remove_dir_all(&tmp);
    }
    let _ = Diagnostic::clone; // keep the import used
}
