//! Printer from the library's data types to the S-expressions decoded by coq/Run/Sx.v
//! (atoms = numbers, strings = lists of code points, options = () / (x), records positional).
use aidl_parser::ast::*;
use aidl_parser::diagnostic::{Diagnostic, DiagnosticKind};
use std::fmt::Write;

pub fn n(out: &mut String, v: u64) {
    write!(out, "{} ", v).unwrap();
}

pub fn s(out: &mut String, x: &str) {
    out.push('(');
    for c in x.chars() {
        write!(out, "{} ", c as u32).unwrap();
    }
    out.push(')');
}

pub fn opt<T, F: Fn(&mut String, &T)>(out: &mut String, x: &Option<T>, f: F) {
    out.push('(');
    if let Some(v) = x {
        f(out, v);
    }
    out.push(')');
}

pub fn list<T, F: Fn(&mut String, &T)>(out: &mut String, x: &[T], f: F) {
    out.push('(');
    for v in x {
        f(out, v);
    }
    out.push(')');
}

/// a record / tagged constructor: ( ... )
pub fn rec<F: FnOnce(&mut String)>(out: &mut String, f: F) {
    out.push('(');
    f(out);
    out.push(')');
}

pub fn ostr(out: &mut String, x: &Option<String>) {
    opt(out, x, |o, v| s(o, v));
}

pub fn boolean(out: &mut String, b: bool) {
    out.push_str(if b { "1 " } else { "0 " });
}

pub fn range(out: &mut String, r: &Range) {
    write!(
        out,
        "({} {} {} {} {} {})",
        r.start.offset, r.start.line_col.0, r.start.line_col.1, r.end.offset, r.end.line_col.0, r.end.line_col.1
    )
    .unwrap();
}

fn rkind(k: &ResolvedItemKind) -> u64 {
    match k {
        ResolvedItemKind::Interface => 0,
        ResolvedItemKind::Parcelable => 1,
        ResolvedItemKind::Enum => 2,
        ResolvedItemKind::ForwardDeclaredParcelable => 3,
        ResolvedItemKind::UnknownImport => 4,
    }
}

fn tkind(out: &mut String, k: &TypeKind) {
    match k {
        TypeKind::Primitive => out.push_str("(0)"),
        TypeKind::Void => out.push_str("(1)"),
        TypeKind::Array => out.push_str("(2)"),
        TypeKind::Map => out.push_str("(3)"),
        TypeKind::List => out.push_str("(4)"),
        TypeKind::String => out.push_str("(5)"),
        TypeKind::CharSequence => out.push_str("(6)"),
        TypeKind::AndroidType(a) => out.push_str(match a {
            AndroidTypeKind::IBinder => "(7 0)",
            AndroidTypeKind::FileDescriptor => "(7 1)",
            AndroidTypeKind::ParcelFileDescriptor => "(7 2)",
            AndroidTypeKind::ParcelableHolder => "(7 3)",
        }),
        TypeKind::ResolvedItem(key, k) => rec(out, |o| {
            o.push_str("8 ");
            s(o, key);
            n(o, rkind(k));
        }),
        TypeKind::Unresolved => out.push_str("(9)"),
    }
}

pub fn ty(out: &mut String, t: &Type) {
    rec(out, |o| {
        s(o, &t.name);
        tkind(o, &t.kind);
        list(o, &t.generic_types, ty);
        range(o, &t.symbol_range);
        range(o, &t.full_range);
    });
}

fn annots(out: &mut String, v: &[Annotation]) {
    list(out, v, |o, a| {
        rec(o, |o| {
            s(o, &a.name);
            let mut kvs: Vec<(&String, &Option<String>)> = a.key_values.iter().collect();
            kvs.sort();
            list(o, &kvs, |o, (k, v)| {
                rec(o, |o| {
                    s(o, k);
                    ostr(o, v);
                })
            });
        })
    });
}

fn direction(out: &mut String, d: &Direction) {
    match d {
        Direction::In(r) => rec(out, |o| {
            o.push_str("0 ");
            range(o, r)
        }),
        Direction::Out(r) => rec(out, |o| {
            o.push_str("1 ");
            range(o, r)
        }),
        Direction::InOut(r) => rec(out, |o| {
            o.push_str("2 ");
            range(o, r)
        }),
        Direction::Unspecified => out.push_str("(3)"),
    }
}

fn arg(out: &mut String, a: &Arg) {
    rec(out, |o| {
        direction(o, &a.direction);
        ostr(o, &a.name);
        ty(o, &a.arg_type);
        annots(o, &a.annotations);
        ostr(o, &a.doc);
        range(o, &a.symbol_range);
        range(o, &a.full_range);
    });
}

fn method(out: &mut String, m: &Method) {
    rec(out, |o| {
        boolean(o, m.oneway);
        s(o, &m.name);
        ty(o, &m.return_type);
        list(o, &m.args, arg);
        annots(o, &m.annotations);
        opt(o, &m.transact_code, |o, v| n(o, *v as u64));
        ostr(o, &m.doc);
        range(o, &m.symbol_range);
        range(o, &m.full_range);
        range(o, &m.transact_code_range);
        range(o, &m.oneway_range);
    });
}

fn constant(out: &mut String, c: &Const) {
    rec(out, |o| {
        s(o, &c.name);
        ty(o, &c.const_type);
        s(o, &c.value);
        annots(o, &c.annotations);
        ostr(o, &c.doc);
        range(o, &c.symbol_range);
        range(o, &c.full_range);
    });
}

fn field(out: &mut String, f: &Field) {
    rec(out, |o| {
        s(o, &f.name);
        ty(o, &f.field_type);
        ostr(o, &f.value);
        annots(o, &f.annotations);
        ostr(o, &f.doc);
        range(o, &f.symbol_range);
        range(o, &f.full_range);
    });
}

fn item(out: &mut String, it: &Item) {
    match it {
        Item::Interface(i) => rec(out, |o| {
            o.push_str("0 ");
            boolean(o, i.oneway);
            s(o, &i.name);
            list(o, &i.elements, |o, e| match e {
                InterfaceElement::Const(c) => rec(o, |o| {
                    o.push_str("0 ");
                    constant(o, c)
                }),
                InterfaceElement::Method(m) => rec(o, |o| {
                    o.push_str("1 ");
                    method(o, m)
                }),
            });
            annots(o, &i.annotations);
            ostr(o, &i.doc);
            range(o, &i.full_range);
            range(o, &i.symbol_range);
        }),
        Item::Parcelable(p) => rec(out, |o| {
            o.push_str("1 ");
            s(o, &p.name);
            list(o, &p.elements, |o, e| match e {
                ParcelableElement::Const(c) => rec(o, |o| {
                    o.push_str("0 ");
                    constant(o, c)
                }),
                ParcelableElement::Field(f) => rec(o, |o| {
                    o.push_str("1 ");
                    field(o, f)
                }),
            });
            annots(o, &p.annotations);
            ostr(o, &p.doc);
            range(o, &p.full_range);
            range(o, &p.symbol_range);
        }),
        Item::Enum(e) => rec(out, |o| {
            o.push_str("2 ");
            s(o, &e.name);
            list(o, &e.elements, |o, el| {
                rec(o, |o| {
                    s(o, &el.name);
                    ostr(o, &el.value);
                    ostr(o, &el.doc);
                    range(o, &el.symbol_range);
                    range(o, &el.full_range);
                })
            });
            annots(o, &e.annotations);
            ostr(o, &e.doc);
            range(o, &e.full_range);
            range(o, &e.symbol_range);
        }),
    }
}

fn import(out: &mut String, i: &Import) {
    rec(out, |o| {
        s(o, &i.path);
        s(o, &i.name);
        range(o, &i.symbol_range);
        range(o, &i.full_range);
    });
}

pub fn aidl(out: &mut String, a: &Aidl) {
    rec(out, |o| {
        rec(o, |o| {
            s(o, &a.package.name);
            range(o, &a.package.symbol_range);
            range(o, &a.package.full_range);
        });
        list(o, &a.imports, import);
        list(o, &a.declared_parcelables, import);
        item(o, &a.item);
    });
}

pub fn diag(out: &mut String, d: &Diagnostic) {
    rec(out, |o| {
        o.push_str(match d.kind {
            DiagnosticKind::Error => "1 ",
            DiagnosticKind::Warning => "0 ",
        });
        range(o, &d.range);
        ostr(o, &d.context_message);
        list(o, &d.related_infos, |o, r| range(o, &r.range));
        s(o, &d.message);
    });
}

pub fn file_result(out: &mut String, id: &str, ast: &Option<Aidl>, diags: &[Diagnostic]) {
    rec(out, |o| {
        s(o, id);
        opt(o, ast, aidl);
        list(o, diags, diag);
    });
}
