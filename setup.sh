#!/bin/bash
# Build the framework from files on disk only (offline): Rust harness against /repo, Coq development, extracted runner.
set -e
cd "$(dirname "$0")"
export CARGO_NET_OFFLINE=true
mkdir -p .cache work evidence replays
(cd harness && cargo build --offline 2>&1 | tail -3)
python3 - <<'PY'
import sys, os
sys.path.insert(0, "lib")
import core
errs = core.regenerate()
if errs:
    print("translator errors:", errs)
ok, out = core.coq_make()
print(out[-1500:])
if not ok:
    sys.exit(1)
core.build_runner()
print("setup ok")
PY
